# Build of the dsim worlds against a datasketches-cpp tree (REPO) into BUILD.
# verif.py picks BUILD from a content hash of REPO's headers + the harness sources, so a changed tree is always rebuilt.
REPO ?= /repo
BUILD ?= build/dev
CXX ?= g++
SAN ?= -fsanitize=address,bounds,null,return,unreachable,vla-bound,integer-divide-by-zero,pointer-overflow,builtin -fno-sanitize-recover=all
OPT ?= -O1
INCS := $(foreach d,common theta tuple hll cpc kll req quantiles fi count sampling tdigest filters density,-I$(REPO)/$(d)/include)
CXXFLAGS := -std=c++14 $(OPT) -g1 $(SAN) -DDATASKETCHES_VERIF $(INCS) -fno-omit-frame-pointer -Wall -Wno-unused-function -Wno-unused-variable
SIMH := $(wildcard sim/*.hpp) $(wildcard $(REPO)/*/include/*.hpp) $(wildcard $(REPO)/*/include/*.h)

BINS := store_d store_q store_m agg_theta agg_hll agg_cpc quant addagg shm heap_d heap_q heap_m heap_o agg_tuple skew_d skew_q skew_m base_d base_q base_m

all: $(addprefix $(BUILD)/,$(BINS))

$(BUILD)/store_d: worlds/store.cpp $(SIMH) Makefile ; @mkdir -p $(BUILD) && $(CXX) $(CXXFLAGS) -DGROUP_DISTINCT $< -o $@
$(BUILD)/store_q: worlds/store.cpp $(SIMH) Makefile ; @mkdir -p $(BUILD) && $(CXX) $(CXXFLAGS) -DGROUP_QUANT $< -o $@
$(BUILD)/store_m: worlds/store.cpp $(SIMH) Makefile ; @mkdir -p $(BUILD) && $(CXX) $(CXXFLAGS) -DGROUP_MISC $< -o $@

BASE := baseline
INCS_BASE := $(foreach d,common theta tuple hll cpc kll req quantiles fi count sampling tdigest filters density,-I$(BASE)/$(d)/include)
CXXFLAGS_BASE := -std=c++14 $(OPT) -g1 $(SAN) -DDATASKETCHES_VERIF -DDSIM_BASELINE $(INCS_BASE) -fno-omit-frame-pointer -w
BASEH := $(wildcard sim/*.hpp) $(wildcard $(BASE)/*/include/*.hpp) $(wildcard $(BASE)/*/include/*.h)
$(BUILD)/skew_d: worlds/skew.cpp $(SIMH) Makefile ; @mkdir -p $(BUILD) && $(CXX) $(CXXFLAGS) -DGROUP_DISTINCT $< -o $@
$(BUILD)/skew_q: worlds/skew.cpp $(SIMH) Makefile ; @mkdir -p $(BUILD) && $(CXX) $(CXXFLAGS) -DGROUP_QUANT $< -o $@
$(BUILD)/skew_m: worlds/skew.cpp $(SIMH) Makefile ; @mkdir -p $(BUILD) && $(CXX) $(CXXFLAGS) -DGROUP_MISC $< -o $@
$(BUILD)/base_d: worlds/skew.cpp $(BASEH) Makefile ; @mkdir -p $(BUILD) && $(CXX) $(CXXFLAGS_BASE) -DGROUP_DISTINCT $< -o $@
$(BUILD)/base_q: worlds/skew.cpp $(BASEH) Makefile ; @mkdir -p $(BUILD) && $(CXX) $(CXXFLAGS_BASE) -DGROUP_QUANT $< -o $@
$(BUILD)/base_m: worlds/skew.cpp $(BASEH) Makefile ; @mkdir -p $(BUILD) && $(CXX) $(CXXFLAGS_BASE) -DGROUP_MISC $< -o $@
$(BUILD)/heap_d: worlds/heap.cpp $(SIMH) Makefile ; @mkdir -p $(BUILD) && $(CXX) $(CXXFLAGS) -DGROUP_DISTINCT $< -o $@
$(BUILD)/heap_q: worlds/heap.cpp $(SIMH) Makefile ; @mkdir -p $(BUILD) && $(CXX) $(CXXFLAGS) -DGROUP_QUANT $< -o $@
$(BUILD)/heap_m: worlds/heap.cpp $(SIMH) Makefile ; @mkdir -p $(BUILD) && $(CXX) $(CXXFLAGS) -DGROUP_MISC $< -o $@
$(BUILD)/heap_o: worlds/heap.cpp $(SIMH) Makefile ; @mkdir -p $(BUILD) && $(CXX) $(CXXFLAGS) -DGROUP_OPS $< -o $@
$(BUILD)/%: worlds/%.cpp $(SIMH) Makefile ; @mkdir -p $(BUILD) && $(CXX) $(CXXFLAGS) $< -o $@

.PHONY: all
