#!/usr/bin/env python3
"""Regenerates MANIFEST.json from the table below (kept in one place so the manifest is always valid and current)."""
import json, os, subprocess
ROOT = os.path.dirname(os.path.abspath(__file__))
import importlib.util
spec = importlib.util.spec_from_file_location("verif", os.path.join(ROOT, "verif.py")); verif = importlib.util.module_from_spec(spec); spec.loader.exec_module(verif)

TEXT = {
 "C01": ("DESIGN 6/C01", "Seeded simulation of producers feeding update theta sketches from a source log with at-least-once redelivery, permutation and interleaved trim/reset/compact/copy/serialize; after every step the retained entries, theta, emptiness and exactness are compared with a reference model built on an independent MurmurHash3 and the documented canonicalisation. Histories and configurations are sampled.",
         "lg_k 26 and lg_k > 12 are not exercised (memory/time); the model hash is checked against published vectors at start-up."),
 "C02": ("DESIGN 6/C02", "Seeded simulation of an aggregator owning stateful theta union / intersection / a-not-b operators that receive input sketches in scheduler-chosen order, multiplicity and physical form with interleaved reads; the operator result is compared with the exact set-algebra model after every delivery, so order- and form-independence are implied. Sampled histories.",
         "Input sketches' (theta, entries, emptiness) are taken from their public observation (C01 decides those); union p is 1."),
 "C03": ("DESIGN 6/C03", "Seeded simulation: one logical stream reaches 8 differently configured HLL sketches in different orders and multiplicities with mid-history type conversion and restore; logical content (coupons / per-slot max registers) of every variant is compared with an independent coupon model after every step, plus cross-variant estimate agreement. Sampled streams.",
         "Registers are read from the HLL_8 updatable image of a copy; lg_k above 12 (14 thorough) not exercised."),
 "C04": ("DESIGN 6/C04", "Seeded simulation of an hll_union receiving sketches and raw items in scheduler order and multiplicity with reads (the deferred kxq/curMin rebuild) and resets interleaved; result lg_k and content compared with the model of everything delivered after every delivery. Sampled histories.",
         "An empty input never lowers the expected lg_k; after reset() the resumed lg_k is not asserted (only <= lg_max_k); bounds of union results are a probe, not a verdict."),
 "C05": ("DESIGN 6/C05", "Seeded simulation of CPC producers and a cpc_union with checkpoint/restore at every stage and unequal lg_k arrival orders; coupon counts against an independent (row,col) model, a public-API re-offer probe that decides matrix equality in every flavor, validate(), estimator-state restoration and the equal-(lg_k,C) estimate identity. Sampled histories.",
         "lg_k above 10 (12 thorough) not exercised; matrix equality is decided by count equality plus re-offer (no private access)."),
 "C07": ("DESIGN 6/C07", "Seeded simulation of producers and an aggregator over kll / req / classic quantiles sketches: merge trees drawn by the scheduler, reader steps interleaved with writers (cached sorted view, lazy level-0 sort), checkpoint/restore, and the internal coin either seeded or adversarial; exact reference multiset per sketch; conservation, extremes, iterator weights, space bound, monotonicity, CDF/PMF coherence and exact-mode exactness are checked after every step. Sampled histories.",
         "REQ's retained-count bound is only retained <= n (no published closed form); KLL's bound is the published max serialized size."),
 "C08": ("DESIGN 6/C08", "The simulator owns the library's coin through hook H1: per-operation draw trees are enumerated completely (kll, classic quantiles) and whole histories are enumerated over all coin sequences (req), and unbiasedness is an exact integer identity per explored state; histories are found by seeded search. Also decides that the number of flips does not depend on their outcomes.",
         "Classic quantiles' down-sampling merge (draws a stride offset from the 64-bit engine) is skipped by the bit oracle and counted; the published-error clause (long streams) is input statistics and not decided here."),
 "C12": ("DESIGN 6/C12", "Seeded simulation of producers and an exactly-once aggregator over frequent-items sketches: merge trees drawn by the scheduler, checkpoint/restore points, copies and refused operations, with an exact reference model per live sketch checked after every step. Sampled histories.", "Result-set guarantees are checked at thresholds >= get_maximum_error() (below it an untracked item cannot be listed by construction); epsilon bound only while 0.75*2^lg_max <= 1024."),
 "C14": ("DESIGN 6/C14", "Seeded simulation of producers and an exactly-once aggregator over count-min sketches with a shadow single-stream sketch for linearity: merge trees drawn by the scheduler, checkpoint/restore points, copies and refused operations, with an exact reference model per live sketch checked after every step. Sampled histories.", "Integer-valued weights so sums are exact; the confidence clause (input statistics) is not decided."),
 "C16": ("DESIGN 6/C16", "Seeded simulation of producers and an exactly-once aggregator over var_opt sketches and unions, with the library's random draws owned by the simulator (seeded, plus single extreme draws): merge trees drawn by the scheduler, checkpoint/restore points, copies and refused operations, with an exact reference model per live sketch checked after every step. Sampled histories.", "Union results are checked for n, total weight, membership and size <= max_k only (the heavy-item clause is stated for a sketch and its own stream); unbiasedness is not decided here."),
 "C17": ("DESIGN 6/C17", "Seeded simulation of producers and an exactly-once aggregator over t-digests with reader steps interleaved (queries and serialization compress lazily): merge trees drawn by the scheduler, checkpoint/restore points, copies and refused operations, with an exact reference model per live sketch checked after every step. Sampled histories.", "Finite inputs only; centroid bound 2*(2k+30) read from the serialized count field; long-stream accuracy not decided."),
 "C18": ("DESIGN 6/C18", "Seeded simulation of producers and an exactly-once aggregator over ebpps sketches merged in both directions with the draws owned by the simulator: merge trees drawn by the scheduler, checkpoint/restore points, copies and refused operations, with an exact reference model per live sketch checked after every step. Sampled histories.", "Inclusion probabilities (statistical) are not decided; one recorded finding (size vs c after merge) is listed in known_findings.json."),
 "C20": ("DESIGN 6/C20", "Seeded simulation of producers and an exactly-once aggregator over density sketches with the coin owned by the simulator: merge trees drawn by the scheduler, checkpoint/restore points, copies and refused operations, with an exact reference model per live sketch checked after every step. Sampled histories.", "Retained bound is k*(observed levels+1), never stricter than the statement; kernel sums compared at 1e-12 (double) / 1e-4 (float)."),
 "C09": ("DESIGN 6/C09", "Seeded simulation of a log-structured sketch store: histories of updates/merges with checkpoints through both serialization APIs (headers, chunked streams, trailing records, torn and lost writes), crashes with recovery from the log, and continue-after-restore against the never-serialized object; every round trip is checked for byte equality of both writers, advertised sizes, exact stream consumption, observational equality and re-serialization. Sampled histories, so exploration.",
         "Assumes the adapters' obs() covers the public API of each family; unordered hash-table sections are compared after an independent canonicalisation written from the layout comments."),
 "C11": ("DESIGN 6/C11", "For each sampled valid image the fault space is enumerated completely (every strict prefix on the bytes and stream paths, every preamble byte x 8 replacement values on both paths) under ASan with exact-size buffers, a tracking allocator (leak after rejection, allocation budget) and a CPU watchdog; images are sampled by seed. Exhaustive per image, sampled over images.",
         "Requests above the allocation budget on corrupted configuration bytes are recorded, not judged (a changed configuration byte can describe a legitimately larger sketch); pure-UB sanitizer classes without memory consequence are not enabled."),
}
TECH = "deterministic simulation with fault injection (seeded plans, lock-step reference model, ddmin-minimised replay)"
NA = {
 "C06": "quantifier is inputs x configurations only: every clause is a pure function of the input multiset or of numeric arguments (no schedule, fault, crash point or history), so deterministic simulation has nothing to decide; see DESIGN section 2",
}
props = [json.loads(l) for l in open(os.path.join(ROOT, "properties.jsonl"))]
checks, na = [], []
for p in props:
    pid = p["id"]
    if pid in verif.PROPS and pid in TEXT:
        ref, text, note = TEXT[pid]
        checks.append(dict(property_id=pid, quick_cmd="python3 verif.py check %s --tier quick" % pid, thorough_cmd="python3 verif.py check %s --tier thorough" % pid,
                           evidence_file="/verif/evidence/%s.json" % pid, replay_cmd_template="python3 verif.py replay {path}", engine="dsim",
                           level_claimed=dict(category=verif.PROPS[pid]["level"], text=text, design_ref=ref), level_note=note, technique=TECH))
    else:
        na.append(dict(property_id=pid, reason=NA.get(pid, "check not built yet in this round (work in progress; see DESIGN section 11) - not a claim that the technique cannot apply")))
hooks_commits = subprocess.run(["git", "-C", "/repo", "log", "--format=%H", "--grep=^verif hook"], stdout=subprocess.PIPE, text=True).stdout.split()
m = dict(version=1, setup_cmd="python3 verif.py setup",
         hooks=dict(guard="DATASKETCHES_VERIF", enable="checks compile the harness with -DDATASKETCHES_VERIF against /repo's headers (header-only library; see Makefile)",
                    baseline_off_cmd="cmake -S /repo -B /repo/_build -G Ninja >/dev/null && cmake --build /repo/_build && ctest --test-dir /repo/_build -j8 --timeout 900", source_commits=hooks_commits, add_only=True),
         engines=[dict(name="dsim", path="/verif/sim", serves_properties=sorted(verif.PROPS.keys()), kind_free_text="seeded deterministic simulator: plans generated from one integer, executed against the real headers and a reference model, faults as plan steps, ddmin shrinking, fresh-process replay gate")],
         checks=checks, not_applicable=na,
         notes="One integer (VERIF_SEED) decides every run; violations are gated by in-process re-execution and a fresh-process replay before being reported. known_findings.json lists repaired defects (status fixed) and, if any, recorded ones (status known).")
json.dump(m, open(os.path.join(ROOT, "MANIFEST.json"), "w"), indent=1)
print("checks:", [c["property_id"] for c in checks], "n/a:", len(na))
