#!/usr/bin/env python3
"""Orchestrator of the dsim checks: build keyed by content hash, worker pool, gates, known findings, evidence.

  verif.py check <PROPERTY> [--tier quick|thorough]
  verif.py replay <replay.json>
  verif.py setup
Environment: VERIF_SEED (default 1), VERIF_TIER, VERIF_REPO (default /repo), VERIF_WORKERS (default 16), VERIF_MAX_VIOLATIONS (per worker, default 6).
Exit codes: 0 property held on everything explored (known findings are printed, not failed); 1 violation
(stdout line `VIOLATION property=<id> replay=<path>`); 2 the machinery itself failed (build error, nondeterminism).
"""
import fnmatch, hashlib, json, os, struct, subprocess, sys, time, glob, shutil

ROOT = os.path.dirname(os.path.abspath(__file__))
REPO = os.environ.get("VERIF_REPO", "/repo")
WORKERS = int(os.environ.get("VERIF_WORKERS", "16"))

# property -> units. A unit is (binary, world, share of workers, quick runs, thorough runs)
PROPS = {
    "C01": dict(level="exploration", units=[("agg_theta", "c01", 16, 30000, 600000)],
                rule="a run = one seeded history over a pool of up to 4 update theta sketches (typed updates of every overload, batches, permuted and redelivered batches, trim/reset/compact/copy/assign/serialize) with one configuration (lg_k, resize factor, p, seed); the retained entries are compared with the independent hash-threshold model after every step; non-trivial = at least one fault (reorder/dup) or compact/copy/serde step; distinct = distinct plan hash"),
    "C02": dict(level="exploration", units=[("agg_theta", "c02", 16, 100000, 3000000)],
                rule="a run = 2-6 input sketches (exact/estimating/empty/zero-retained) delivered in scheduler order, multiplicity and physical form (update, compact ordered/unordered, deserialized v3/v4, wrapped v3/v4, lvalue/rvalue) to a stateful union, intersection and a-not-b with interleaved get_result/reset; the result is compared with the set-algebra model after every delivery; non-trivial = at least one delivery; distinct = distinct plan hash"),
    "C03": dict(level="exploration", units=[("agg_hll", "c03", 16, 5000, 80000)],
                rule="a run = one logical stream fed to 8 HLL sketch variants (HLL_4/6/8 lazily grown, started full-size, permuted order, redelivered batches) with type conversions and serialize/deserialize mid-history; every variant's coupon set or register array (HLL_8 updatable image of a copy) is compared with the independent coupon model after every step; non-trivial = reorder/dup fault or conversion; distinct = distinct plan hash"),
    "C04": dict(level="exploration", units=[("agg_hll", "c04", 16, 16000, 400000)],
                rule="a run = 2-6 input sketches (lg_k 4..12, three types, list/set/HLL mode, empty, started full-size) and raw items delivered to one hll_union in scheduler order and multiplicity, lvalue/rvalue, with get_result/estimate reads and resets interleaved; result lg_k and registers/coupons compared with the model after every delivery; non-trivial = at least one sketch delivery; distinct = distinct plan hash"),
    "C05": dict(level="exploration", units=[("agg_cpc", "c05", 16, 15000, 200000)],
                rule="a run = up to 4 CPC sketches (lg_k 4..10) driven across every flavor boundary with typed updates, serialize/deserialize at every stage (restored sketch continues), a cpc_union fed sketches of unequal lg_k in scheduler order with duplicates and interleaved get_result; coupon count vs independent (row,col) model, re-offer probe, validate(), equal-(lg_k,C) estimate identity; non-trivial = union delivery, restore or probe; distinct = distinct plan hash"),
    "C07": dict(level="exploration", units=[("quant", "c07", 16, 4000, 50000)],
                rule="a run = a pool of 4 kll / req (HRA or LRA) / classic quantiles sketches over float, string or instrumented items driven by seeded batches (sorted, reversed, random, constant, duplicates, NaN), merge trees (equal/unequal k, empty/exact/estimating operands, lvalue/rvalue), copies and restores, with reader steps (sorted view, rank, quantile, CDF, PMF, invalid queries) interleaved; the coin source is seeded or adversarial (all-0, all-1, alternating); n, extremes, iterator weights and the space bound are checked after every step on every live sketch; non-trivial = at least one merge, restore, reader or adversarial coin; distinct = distinct plan hash"),
    "C08": dict(level="exploration", units=[("quant", "c08", 12, 24000, 1000000), ("quant", "c08s", 4, 60, 600)],
                rule="a run = one short seeded history (updates, merges, k minimal) executed with the library's coin owned by the simulator: for kll and classic quantiles every operation is re-executed from a copied pre-state once per outcome of the draws it requests (complete draw tree) and the exact integer martingale identity is checked at every retained item; for req the whole history is replayed under every coin sequence (<= 14 draws) and the mean rank count must equal the true count exactly; non-trivial = at least one operation that flipped a coin; distinct = distinct plan hash; world c08s: per run one long stream (k, arrival order ascending/descending/permuted/zig-zag, 40k..1000k items, one sketch or three sketches merged) replayed under 300 (thorough 1000) coin sequences owned by the simulator: per query point the number of sequences in which the published error (kll/classic: get_normalized_rank_error single- and double-sided at 99%; req: get_rank_lower/upper_bound at 1, 2, 3 standard deviations, and zero-width bounds = exact) fails is tested against the claimed rate by the exact binomial tail at 1e-12"),
    "C12": dict(level="exploration", units=[("addagg", "c12", 16, 8000, 100000)],
                rule="a run = 3 frequent_items sketches (int64/int64 weights or string/uint64 weights, lg_max 3..8) fed skewed, uniform and all-distinct weighted streams with zero weights, merged in scheduler order (lvalue/rvalue), copied and restored; exact weight map per sketch; bracket, max-error, total-weight and epsilon clauses for every item and 16 unseen items after every step; result-set guarantees at thresholds around the actual weights; non-trivial = merge/restore/read; distinct = distinct plan hash"),
    "C13": dict(level="exploration", units=[("agg_tuple", "c13", 16, 30000, 400000)],
                rule="a run = 3 update tuple sketches of one summary kind (double with sum policy, an ordered list whose policy appends - non-commutative and move-aware -, array of doubles with 1-4 columns) fed typed keys and batches with repeated keys, reset/trim/compact/copy, delivered in every physical form (update, compact ordered/unordered, moved) to a stateful tuple union, intersection and a-not-b with interleaved reads, plus filter(); per-key fold model over an independent hash; every retained key's summary compared after every step; non-trivial = set-operation delivery, compact or copy; distinct = distinct plan hash"),
    "C14": dict(level="exploration", units=[("addagg", "c14", 16, 4000, 100000)],
                rule="a run = 3 count-min sketches of one configuration (W in u64/i64/double, 1..255 hashes, 3..1000 buckets, seed) fed integer and string items, merged as a tree, restored, with refused merges; exact counts and a shadow sketch fed the concatenated streams; never-underestimate, bounds, total weight after every step and cell-by-cell linearity after every merge; distinct = distinct plan hash"),
    "C16": dict(level="exploration", units=[("addagg", "c16", 10, 30000, 800000), ("addagg", "c16s", 4, 64, 1200), ("addagg", "c16u", 2, 6000, 150000)],
                rule="a run = 3 var_opt sketches (k 1..100, resize factors) fed unique items with uniform/exponential/heavy-tailed/increasing/decreasing/one-giant weights, unions of 2-3 sketches in scheduler order through var_opt_union (lvalue/rvalue, serialized and restored), restores, resets, refused weights; the library's draws come from the simulator (10% of runs replace one draw by an extreme); n, sample count, membership, heavy items exact, weight conservation, subset sums after every step; world c16s: per run one small weighted stream (single sketch, two sketches of different k united, or checkpoint/restore in mid-stream) replayed under 40000 (thorough 100000) draw sequences owned by the simulator, mean per-item and odd-subset estimates within the 1e-13 empirical-Bernstein bound of the true weights; distinct = distinct plan hash; world c16u: unions of 2-4 string sketches of different k and fill into a union with a larger max_k (get_result migrates marked items by decreasing k): every sample is an input string, none twice, n and total weight are the combined ones, and every heap block the item strings took is returned"),
    "C17": dict(level="exploration", units=[("addagg", "c17", 16, 40000, 1000000)],
                rule="a run = 3 t-digests (double/float, k 10..200) fed sorted/reversed/random/clustered/constant/duplicate-heavy/dyadic streams and NaN, merged, restored with and without buffer, with reader steps (rank/quantile grids, CDF/PMF, centroid count) whose placement changes the compress points; exact value list per digest; distinct = distinct plan hash"),
    "C18": dict(level="exploration", units=[("addagg", "c18", 12, 24000, 300000), ("addagg", "c18s", 4, 96, 800)],
                rule="a run = 3 ebpps sketches (k 1..32, one with 2k+1) fed unique weighted items, merged in both directions (lvalue/rvalue), restored, reset; draws owned by the simulator (10% of runs replace one draw by an extreme); n, cumulative weight, c = min(k, W/wmax), result size floor/ceil of c, membership after every step; world c18s: per run one small weighted stream replayed under 20000 (thorough 40000) draw sequences owned by the simulator, inclusion frequency of every item within the 1e-13 Bernstein bound of w_i*min(1/wmax, k/W); distinct = distinct plan hash"),
    "C20": dict(level="exploration", units=[("addagg", "c20", 16, 10000, 250000)],
                rule="a run = 3 density sketches (float/double, Gaussian or a harness kernel, k 2..16, dim 1..4) fed points, merged by reference and by move, restored, with wrong-dimension updates/merges; coin bit source seeded or adversarial; n, iterator weights 2^level, membership, retained bound, estimation-mode flag, exact kernel mean before the first compaction after every step; distinct = distinct plan hash"),
    "C15": dict(level="exploration", units=[("shm", "c15", 16, 150000, 1500000)],
                rule="a run = one caller memory block of exactly the serialized size and up to 5 views of it or snapshots of it created and destroyed by the scheduler (initialize_by_size owner, writable_wrap, wrap, deserialize from bytes or stream, copies), with typed update / query_and_update / query, union / intersect / invert against compatible and incompatible filters, reset, get_bits_used, serialize, writes through read-only views and view deaths; a bit-array model on an independent XXH64; after every step every view not overtaken by another writer plus a fresh wrap, writable wrap and deserialize of the memory are compared with the model; non-trivial = at least one new view of written memory; distinct = distinct plan hash"),
    "C19": dict(level="exploration", units=[("heap_d", "c19d", 4, 3000, 100000), ("heap_q", "c19q", 5, 3600, 120000), ("heap_m", "c19m", 4, 3000, 100000), ("heap_o", "c19o", 3, 3000, 100000)],
                rule="a run = a pool of up to 6 live objects of one family (27 family/type instantiations, tracking allocator with arenas, instrumented items for the generic sketches) and an interleaving of construct, update, copy/move construct, copy/move assign, self assign, self move-assign, assignment chains, merge by reference and by move, query, serialize->deserialize into the pool, reset, destroy; per-object expected observation; non-trivial = at least one copy/move/assign/merge/restore; distinct = distinct plan hash; world c19o: the same lifecycle over the ten set-operation types (theta union/intersection/a-not-b, tuple union/intersection/a-not-b with an instrumented summary, array-of-doubles union/intersection, hll union, cpc union) fed whole sketches by reference and by move"),
    "C09": dict(level="exploration", units=[("store_d", "c09d", 6, 2400, 60000), ("store_q", "c09q", 5, 2000, 50000), ("store_m", "c09m", 5, 2000, 50000)],
                rule="a run = one seeded history (feed/merge/reset, checkpoints through either API with header/chunk/trailing/torn/lost faults, crashes with recovery from the log) over one family and configuration; non-trivial = executed at least one checkpoint round-trip or fault; distinct = distinct plan hash"),
    "C10": dict(level="exploration", units=[("skew_d", "c10d", 3, 1500, 40000, "base_d"), ("skew_q", "c10q", 3, 1500, 40000, "base_q"), ("skew_m", "c10m", 3, 1500, 40000, "base_m"),
                                              ("base_d", "c10d", 2, 1500, 40000, "skew_d"), ("base_q", "c10q", 2, 1500, 40000, "skew_q"), ("base_m", "c10m", 2, 1500, 40000, "skew_m"),
                                              ("skew_d", "c10ld", 1, 1500, 40000), ("skew_m", "c10hm", 1, 60, 600), ("skew_q", "c10tq", 1, 600, 20000), ("skew_q", "c10qq", 1, 1500, 40000)],
                rule="a run = one seeded plan (family, configuration, history with checkpoints in every format variant) executed by BOTH the frozen baseline build (/verif/baseline = pinned commit + hook) and the current build; each side dumps image + what it reads back from it; the other side must read every image to the same version-stable observation (upgrade: skew_* reads base_* dumps; downgrade: base_* reads skew_* dumps), plus documented serial-version / family-id bytes, the 15 shipped reference images read identically by both versions, legacy Theta v1/v2 images (empty, exact, estimation shapes) synthesised by an encoder written from the layout and read through the bytes, stream and wrap readers, and inputs of every length 1..100 bytes hashed against the independent MurmurHash3 / XXH64; non-trivial = at least one peer image read; distinct = distinct plan hash; after every upgrade read of an hll or cpc image whose history is pure feeding, everything the writer had seen is offered again and must change nothing (restart with redelivery); world c10tq: t-digest images in the two big-endian formats of the reference implementation, synthesised by an encoder written from that layout, read through the bytes and the stream reader (k, weight, min, max, agreement of both, exact consumption)"),
    "C11": dict(level="fault_enumeration", units=[("store_d", "c11d", 6, 120, 2400), ("store_q", "c11q", 5, 100, 2000), ("store_m", "c11m", 5, 100, 2000)],
                rule="a run = one sampled valid image (family, variant, configuration, seeded history) whose fault space is enumerated completely: every strict prefix x {bytes, stream} and every byte of the first 64 x 8 replacement values x {bytes, stream}; non-trivial = at least one fault executed; distinct = distinct plan hash (image)"),
}
COMPONENTS = dict(real=["every datasketches-cpp header reached through the public API of the family under test (built from the working tree with -DDATASKETCHES_VERIF)"],
                  stub=["source log / feed generator", "simulated log-structured disk and stream buffers (SimFileBuf)", "tracking allocator backend (malloc)", "library random source (SimRandom via hook H1)", "reference models and independent MurmurHash3/XXH64"])


def log(*a):
    print(*a, file=sys.stderr, flush=True)


def tree_hash():
    h = hashlib.sha256()
    files = sorted(glob.glob(os.path.join(REPO, "*", "include", "*.h*")))
    files += sorted(glob.glob(os.path.join(ROOT, "sim", "*.hpp"))) + sorted(glob.glob(os.path.join(ROOT, "worlds", "*.cpp"))) + sorted(glob.glob(os.path.join(ROOT, "worlds", "*.hpp"))) + [os.path.join(ROOT, "Makefile")] + sorted(glob.glob(os.path.join(ROOT, "baseline", "*", "include", "*.h*")))
    for f in files:
        h.update(f.encode()); h.update(b"\0")
        with open(f, "rb") as fh:
            h.update(fh.read())
    return h.hexdigest()[:16]


def build(targets):
    """Build the needed binaries from REPO's current working tree; the build directory is keyed by a content hash."""
    bdir = os.path.join(ROOT, "build", tree_hash())
    os.makedirs(bdir, exist_ok=True)
    need = [t for t in targets if not os.path.exists(os.path.join(bdir, t))]
    if need:
        t0 = time.time()
        cmd = ["make", "-C", ROOT, "-j", str(WORKERS), "REPO=" + REPO, "BUILD=" + bdir] + [os.path.join(bdir, t) for t in need]
        r = subprocess.run(cmd, stdout=subprocess.PIPE, stderr=subprocess.STDOUT, text=True)
        if r.returncode != 0:
            log(r.stdout[-6000:])
            log("BUILD FAILED")
            sys.exit(2)
        log("built %s in %.0fs" % (",".join(need), time.time() - t0))
    # keep the three most recent build directories only (disk is limited)
    dirs = sorted([d for d in glob.glob(os.path.join(ROOT, "build", "*")) if os.path.isdir(d) and len(os.path.basename(d)) == 16], key=os.path.getmtime)
    os.utime(bdir, None)
    for d in dirs[:-6]:      # a directory touched within the last 3 hours may belong to a check that is still running
        if d != bdir and time.time() - os.path.getmtime(d) > 3 * 3600:
            shutil.rmtree(d, ignore_errors=True)
    return bdir


def load_known():
    with open(os.path.join(ROOT, "known_findings.json")) as f:
        return json.load(f)["findings"]


def plan_to_replay(prop, plan_path, vio, seed, binary):
    with open(plan_path) as f:
        lines = f.read().splitlines()
    meta = {}
    plan = []
    for ln in lines:
        k = ln.split(" ", 1)[0]
        if k in ("world", "seed", "cfg", "step"):
            plan.append(ln)
        else:
            meta[k] = ln[len(k) + 1:] if len(ln) > len(k) else ""
    rep = dict(property=prop, binary=binary, world=vio["world"], verif_seed=seed, run_index=vio["run"], fingerprint=vio["fingerprint"], detail=vio.get("detail", ""),
               steps_before=vio.get("steps_before"), steps_after=vio.get("steps_after"), shrink_executions=vio.get("shrink_executions"), crashed=vio.get("crashed"), plan=plan)
    os.makedirs(os.path.join(ROOT, "replays"), exist_ok=True)
    out = os.path.join(ROOT, "replays", "%s-%s-%d-%d.json" % (prop, vio["world"], seed, vio["run"]))
    with open(out, "w") as f:
        json.dump(rep, f, indent=1)
    return out


def run_replay_file(bdir, rep, env=None):
    tmpdir = os.path.join(ROOT, "build", "tmp")
    os.makedirs(tmpdir, exist_ok=True)
    pf = os.path.join(tmpdir, "replay-%d.plan" % os.getpid())
    with open(pf, "w") as f:
        f.write("fingerprint %s\n" % rep["fingerprint"])
        f.write("\n".join(rep["plan"]) + "\n")
    r = subprocess.run([os.path.join(bdir, rep["binary"]), "replay", "--plan", pf], stdout=subprocess.PIPE, stderr=subprocess.DEVNULL, text=True, env=env)
    os.unlink(pf)
    verdict = None
    for ln in r.stdout.splitlines():
        try:
            j = json.loads(ln)
            if j.get("type") == "replay":
                verdict = j
        except ValueError:
            pass
    return r.returncode, verdict


def cmd_replay(path):
    with open(path) as f:
        rep = json.load(f)
    if rep.get("kind") == "reference_image":
        bdir = build(["skew_d", "skew_q", "skew_m", "base_d", "base_q", "base_m"])
        refs = ":".join(sorted(glob.glob(os.path.join(REPO, "*", "test", "*.sk"))))
        bad = 0
        for g in "dqm":
            pf = os.path.join(ROOT, "build", "tmp", "refdump.%s.%d" % (g, os.getpid())); os.makedirs(os.path.dirname(pf), exist_ok=True)
            subprocess.run([os.path.join(bdir, "base_" + g), "dump", "--world", "c10" + g, "--count", "0", "--out", pf, "--refs", refs], stderr=subprocess.DEVNULL)
            envr = dict(os.environ); envr["DSIM_PEER_FILE"] = pf
            r = subprocess.run([os.path.join(bdir, "skew_" + g), "refs"], stdout=subprocess.PIPE, stderr=subprocess.DEVNULL, text=True, env=envr)
            bad += sum(1 for ln in r.stdout.splitlines() if rep["file"] in ln and '"ok":false' in ln)
            os.unlink(pf)
        if bad:
            print("VIOLATION property=%s replay=%s" % (rep["property"], path)); return 1
        print("replay does not fail on this tree"); return 0
    env = None
    if rep.get("peer_binary"):
        bdir = build([rep["binary"], rep["peer_binary"]])
        pf = os.path.join(ROOT, "build", "tmp", "peer-%d.dump" % os.getpid()); os.makedirs(os.path.dirname(pf), exist_ok=True)
        subprocess.run([os.path.join(bdir, rep["peer_binary"]), "dump", "--world", rep["world"], "--seed", str(rep["verif_seed"]), "--from", str(rep["run_index"]), "--count", "1",
                        "--tier", "0" if rep.get("tier", "quick") == "quick" else "1", "--out", pf], stderr=subprocess.DEVNULL)
        env = dict(os.environ); env["DSIM_PEER_FILE"] = pf
    else:
        bdir = build([rep["binary"]])
    rc, verdict = run_replay_file(bdir, rep, env)
    print(json.dumps(verdict))
    if rc == 1:
        print("VIOLATION property=%s replay=%s" % (rep["property"], path))
        return 1
    if rc == 3:
        print("replay fails, but with a different fingerprint than recorded: %s" % (verdict or {}).get("fingerprint"))
        return 1
    if rc == 0:
        print("replay does not fail on this tree")
        return 0
    return 2


def cmd_check(prop, tier):
    if prop not in PROPS:
        log("no check for", prop); return 2
    spec = PROPS[prop]
    seed = int(os.environ.get("VERIF_SEED", "1"))
    t_start = time.time()
    units = spec["units"]
    bdir = build(sorted(set(u[0] for u in units)))
    outdir = os.path.join(ROOT, "build", "out", "%s-%s-%d" % (prop, tier, os.getpid()))
    os.makedirs(outdir, exist_ok=True)
    total_share = sum(u[2] for u in units)
    procs = []
    known_file = os.path.join(outdir, "known.txt")
    with open(known_file, "w") as kf:
        for k in load_known():
            if k.get("status") == "known" and k.get("property") == prop:
                kf.write(k["fingerprint"] + "\n")
    cap = int(os.environ.get("VERIF_CAP_SECONDS", "90" if tier == "quick" else "900"))   # per-worker wall clock; the override is for pre-screening a tier in less time
    peer_files = {}
    if any(len(u) > 5 for u in units):      # version-skew: the peer build writes its records first
        refs = ":".join(sorted(glob.glob(os.path.join(REPO, "*", "test", "*.sk"))))
        dumps = []
        for u in units:
            if len(u) <= 5:
                continue
            count = u[3] if tier == "quick" else u[4]
            pf = os.path.join(outdir, "dump.%s.%s" % (u[5], u[1]))
            peer_files[(u[0], u[1])] = pf
            parts = []
            for part in range(4):
                lo, hi = part * count // 4, (part + 1) * count // 4
                ppath = pf + ".%d" % part
                cmdp = [os.path.join(bdir, u[5]), "dump", "--world", u[1], "--seed", str(seed), "--from", str(lo), "--count", str(hi - lo), "--tier", "0" if tier == "quick" else "1", "--out", ppath]
                if part == 0:
                    cmdp += ["--refs", refs]
                parts.append((ppath, subprocess.Popen(cmdp, stdout=subprocess.DEVNULL, stderr=subprocess.DEVNULL)))
            dumps.append((pf, parts))
        for pf, parts in dumps:
            with open(pf, "w") as out:
                for ppath, pr in parts:
                    rc_dump = pr.wait()
                    if rc_dump != 0 and not os.path.basename(ppath).startswith("dump.base_"):
                        log("dump failed:", ppath); harness_errors_pre = True
                    # (the frozen old release may die on one of its own, since repaired, defects while executing a plan: the records it wrote until then are used)
                    if os.path.exists(ppath):
                        with open(ppath, errors="replace") as f:
                            txt = f.read()
                        if txt and not txt.endswith("\n"):
                            txt = txt[:txt.rfind("\n") + 1]      # a writer that died leaves a cut line
                        out.write(txt)
    for u in units:
        (binary, world, share, qruns, truns) = u[:5]
        nw = max(1, (WORKERS * share) // total_share)
        count = qruns if tier == "quick" else truns
        envu = dict(os.environ)
        if (binary, world) in peer_files:
            envu["DSIM_PEER_FILE"] = peer_files[(binary, world)]
        for w in range(nw):
            cmd = [os.path.join(bdir, binary), "run", "--world", world, "--seed", str(seed), "--from", "0", "--count", str(count), "--stride", str(nw), "--offset", str(w),
                   "--tier", "0" if tier == "quick" else "1", "--out", outdir, "--max-seconds", str(cap), "--max-violations", os.environ.get("VERIF_MAX_VIOLATIONS", "6"), "--known-file", known_file]
            procs.append((binary, world, w, subprocess.Popen(cmd, stdout=subprocess.PIPE, stderr=subprocess.DEVNULL, text=True, env=envu)))
    stats = dict(runs=0, steps=0, nontrivial=0, checks=0, faults={}, probes={})
    violations, nondet, samples, truncated, harness_errors = [], [], [], 0, 0
    for (binary, world, w, p) in procs:
        out, _ = p.communicate()
        done = False
        for ln in out.splitlines():
            try:
                j = json.loads(ln)
            except ValueError:
                continue
            t = j.get("type")
            if t == "stats":
                s = j["stats"]
                for k in ("runs", "steps", "nontrivial", "checks"):
                    stats[k] += s[k]
                for k in ("faults", "probes"):
                    for kk, vv in s[k].items():
                        stats[k][kk] = stats[k].get(kk, 0) + vv
            elif t == "violation":
                fpv = j.get("fingerprint", "")
                if binary.startswith("base_") and (fpv.startswith("crash|") or fpv.startswith("unexpected-exception|")) and "|read_peer_image|" not in fpv:
                    # the frozen old release crashed or threw while executing the plan itself: a defect of the old release (repaired since), nothing about
                    # the tree under test; only what happens while it reads the new release's images is a verdict
                    stats["probes"]["old_release_failed_executing_plan"] = stats["probes"].get("old_release_failed_executing_plan", 0) + 1
                    continue
                j["binary"] = binary; violations.append(j)
            elif t == "nondeterminism":
                nondet.append(j)
            elif t == "sample" and len(samples) < 3:
                samples.append(dict(world=world, plan=j["plan"].splitlines()))
            elif t == "truncated":
                truncated += 1
            elif t == "harness_error":
                harness_errors += 1
            elif t == "done":
                done = True
        if not done or p.returncode != 0:
            harness_errors += 1
            log("worker %s/%s/%d ended abnormally (rc=%s)" % (binary, world, w, p.returncode))
    # distinct plan hashes / trace hashes among non-trivial runs
    plan_hashes, trace_hashes, evaluated = set(), set(), 0
    for hf in glob.glob(os.path.join(outdir, "hashes.*.bin")):
        with open(hf, "rb") as f:
            data = f.read()
        for i in range(0, len(data) - 23, 24):
            ph, th, nt = struct.unpack_from("<QQQ", data, i)
            evaluated += 1
            if nt:
                plan_hashes.add(ph); trace_hashes.add(th)
    # determinism recheck: the same run indices, executed twice in-process by `trace`, in two separate processes
    det_runs, det_mismatch = 0, 0
    for u in units:
        (binary, world, share, qruns, truns) = u[:5]
        if len(u) > 5:
            continue      # the peer file is part of the input of these worlds; their determinism is gated in-run (re-execution) and by fresh-process replay
        n = min(2000, max(8, (qruns if tier == "quick" else truns) // (40 if tier == "quick" else 100)))
        # both repetitions of every slice of the index range run concurrently, each in its own process
        slices = max(1, min(WORKERS // 2, n // 8)); per = (n + slices - 1) // slices
        def trace_slice(args):
            frm, cnt = args
            r = subprocess.run([os.path.join(bdir, binary), "trace", "--world", world, "--seed", str(seed), "--from", str(frm), "--count", str(cnt), "--tier", "0" if tier == "quick" else "1"],
                               stdout=subprocess.PIPE, stderr=subprocess.DEVNULL, text=True)
            return r.stdout    # a crashing run index ends the audit of this slice early; both processes stop at the same place if deterministic
        jobs = [(i * per, min(per, n - i * per)) for i in range(slices) if i * per < n]
        import concurrent.futures
        with concurrent.futures.ThreadPoolExecutor(max_workers=2 * len(jobs)) as ex:
            res = list(ex.map(trace_slice, jobs + jobs))
        outs = ["".join(res[:len(jobs)]), "".join(res[len(jobs):])]
        a, b = outs[0].splitlines(), outs[1].splitlines()
        det_runs += min(len(a), len(b))
        det_mismatch += sum(1 for x, y in zip(a, b) if x != y) + sum(1 for x in a if "MISMATCH" in x) + abs(len(a) - len(b))
    ref_results = []
    for (b, wname), pf in sorted(peer_files.items()):
        if not b.startswith("skew_"):
            continue
        envr = dict(os.environ); envr["DSIM_PEER_FILE"] = pf
        r = subprocess.run([os.path.join(bdir, b), "refs"], stdout=subprocess.PIPE, stderr=subprocess.DEVNULL, text=True, env=envr)
        for ln in r.stdout.splitlines():
            try:
                j = json.loads(ln)
            except ValueError:
                continue
            if j.get("type") == "ref":
                ref_results.append(j)
    known = load_known()
    reported, known_hit, exit_code = [], [], 0
    for j in ref_results:
        if not j["ok"]:
            os.makedirs(os.path.join(ROOT, "replays"), exist_ok=True)
            rp = os.path.join(ROOT, "replays", "%s-ref-%s.json" % (prop, j["file"]))
            with open(rp, "w") as f:
                json.dump(dict(property=prop, kind="reference_image", file=j["file"], family=j["family"], detail=j["detail"]), f, indent=1)
            print("VIOLATION property=%s replay=%s" % (prop, rp))
            print("  shipped reference image %s is read differently than by the baseline: %s" % (j["file"], j["detail"][:300]))
            reported.append(dict(fingerprint="C10|reference-image|" + j["file"], replay=rp, detail=j["detail"][:300]))
            exit_code = 1
    machinery_failed = bool(nondet or det_mismatch or harness_errors)
    if machinery_failed:
        for n in nondet:
            log("NONDETERMINISM", json.dumps(n))
        log("machinery failure: nondeterminism=%d determinism-audit mismatches=%d harness errors=%d" % (len(nondet), det_mismatch, harness_errors))
        exit_code = 2
    seen_fp = set()
    for v in violations:
        rep_path = plan_to_replay(prop, v["plan_file"], v, seed, v["binary"])
        with open(rep_path) as f:
            rep = json.load(f)
        renv = None
        if (v["binary"], v["world"]) in peer_files:
            renv = dict(os.environ); renv["DSIM_PEER_FILE"] = peer_files[(v["binary"], v["world"])]
            rep["peer_binary"] = [u[5] for u in units if u[0] == v["binary"] and u[1] == v["world"]][0]; rep["tier"] = tier
            with open(rep_path, "w") as f:
                json.dump(rep, f, indent=1)
        rc, verdict = run_replay_file(bdir, rep, renv)     # fresh process
        if rc != 1:
            log("violation did not reproduce in a fresh process: %s (rc=%s, got %s)" % (v["fingerprint"], rc, verdict))
            exit_code = 2
            continue
        match = [k for k in known if k.get("status") == "known" and k.get("property") == prop and fnmatch.fnmatchcase(v["fingerprint"], k["fingerprint"])]
        if match:
            if v["fingerprint"] not in seen_fp:
                print("KNOWN-FINDING: property=%s %s [%s]" % (prop, match[0]["what"], v["fingerprint"]))
            known_hit.append(v["fingerprint"])
            os.unlink(rep_path)
        else:
            print("VIOLATION property=%s replay=%s" % (prop, rep_path))
            print("  fingerprint: %s\n  detail: %s\n  minimised %s -> %s steps in %s executions" % (v["fingerprint"], v.get("detail", "")[:400], v.get("steps_before"), v.get("steps_after"), v.get("shrink_executions")))
            reported.append(dict(fingerprint=v["fingerprint"], replay=rep_path, detail=v.get("detail", "")[:400]))
            if exit_code == 0:
                exit_code = 1
        seen_fp.add(v["fingerprint"])
    if reported and exit_code == 2:
        # a violation that kept its fingerprint through the in-run re-execution and the fresh-process replay stands, even when traces of the same run
        # differed between executions: then it is the code under test that is not a function of its input (e.g. it hashes an address)
        log("reporting %d reproduced violation(s) although executions of the same run differed (see machinery lines above)" % len(reported))
        exit_code = 1
    wall = time.time() - t_start
    zero_probes = []
    ev = dict(property_id=prop, tier=tier, seed=seed, level=spec["level"], wall_s=round(wall, 2), violations=len(reported),
              coverage=dict(evaluations=stats["runs"], distinct_nontrivial=len(plan_hashes), rule=spec["rule"], samples=samples or [dict(note="no non-trivial sample emitted by worker 0")],
                            exhaustive=False, logical_steps=stats["steps"], oracle_checks=stats["checks"], runs_per_hour=int(stats["runs"] / max(wall, 1e-9) * 3600),
                            simulated_time="n/a - no clock in the code under test; logical steps are reported instead",
                            faults_fired=stats["faults"], probes=stats["probes"], distinct_state_fingerprints=len(trace_hashes), distinct_plans_counted="exact set of 64-bit plan hashes",
                            components=COMPONENTS, determinism_recheck=dict(runs=det_runs, mismatches=det_mismatch, in_run_gate_failures=len(nondet)),
                            workers=len(procs), budget_truncated_workers=truncated, reference_images_checked=len(ref_results), known_findings_hit=sorted(set(known_hit)), reported=reported, repo=REPO, build=os.path.basename(bdir)),
              assumptions=["sampled histories/images: a clean batch is evidence, not proof", "x86-64, g++ 12, libstdc++, ASan + selected UBSan checks at -O1",
                           "the harness's reference models and independent hashes are correct (hash self-test against published vectors at start-up)"])
    evdir = os.environ.get("VERIF_EVIDENCE_DIR", os.path.join(ROOT, "evidence"))   # overridden only when a seeded change is run against a scratch copy of the tree
    os.makedirs(evdir, exist_ok=True)
    with open(os.path.join(evdir, prop + ".json"), "w") as f:
        json.dump(ev, f, indent=1)
    shutil.rmtree(outdir, ignore_errors=True)
    log("%s %s: runs=%d steps=%d checks=%d distinct=%d violations=%d known=%d wall=%.1fs exit=%d" % (prop, tier, stats["runs"], stats["steps"], stats["checks"], len(plan_hashes), len(reported), len(set(known_hit)), wall, exit_code))
    return exit_code


def main():
    if len(sys.argv) < 2:
        print(__doc__); return 2
    cmd = sys.argv[1]
    if cmd == "setup":
        build(sorted(set(u[0] for s in PROPS.values() for u in s["units"])))
        return 0
    if cmd == "check":
        tier = os.environ.get("VERIF_TIER", "quick")
        if "--tier" in sys.argv:
            tier = sys.argv[sys.argv.index("--tier") + 1]
        return cmd_check(sys.argv[2], tier)
    if cmd == "replay":
        return cmd_replay(sys.argv[2])
    print(__doc__); return 2


if __name__ == "__main__":
    sys.exit(main())
