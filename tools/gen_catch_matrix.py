#!/usr/bin/env python3
"""Writes seeded/CATCH_MATRIX.md from seeded/<id>/meta.json, seeded/RESULTS.txt (tools/run_all_seeded.sh) and the notes below
(what had to be strengthened before the change was caught)."""
import json, os, re, glob
ROOT = os.path.dirname(os.path.dirname(os.path.abspath(__file__)))
NOTES = {
 # round 1 / 2
 "C07-m1": "as built", "C07-m2": "needed `edge_merge_then_tail` (two fresh sketches adding up to a capacity boundary, merged, 400k more items) and the REQ space bound",
 "C08-m1": "needed merges of sketches with different k and the min-k bookkeeping in the model", "C08-m2": "as built (whole-history enumeration)",
 "C10-m1": "needed world `c10ld` (legacy Theta v1/v2 images synthesised from the documented layout)", "C10-m2": "needed world `c10hm` (every input length against the independent XXH64)",
 "C11-m2": "needed tracking of blocks taken from the global operator new inside library calls", "C19-m2": "as built",
 "C13-m1": "needed the emptiness flag of filtered sketches in the model", "C13-m2": "needed Theta sketches as operands (`theta_operand` step)",
 "C14-m1": "needed fractional weights for the floating-point weight type", "C14-m2": "needed a refusal operand with equal cell count and another shape",
 "C15-m1": "needed the copy-assignment step", "C18-m2": "needed world `c18s` (inclusion probability over simulator-owned draw sequences)",
 "C19-m1": "needed the C++14 build (library's own optional) and global-new tracking; **obsolete since fix 2200df4** (optional::emplace now destroys first, the change no longer leaks)",
 # round 7
 "C20-m9": "needed an allocation failure injected inside `update()` on the non-compacting path (fault kind `alloc_fail_in_update`); the model follows get_n() and the stated invariants are judged on the post-fault state",
 "C11-m11": "needed the image of the fresh (empty) object of the same family/configuration/variant enumerated in every run (empty images take flag-dependent reader paths)",
 "C19-m11": "needed objects built in two allocator arenas (instances compare unequal; a quarter of the runs) and the fingerprint `released-through-unequal-allocator-instance`",
 "C13-m11": "needed the union object itself reset and used again (`union_reset_and_reused`) in the Tuple world", "C14-m11": "needed images written behind a caller-reserved header (`serialize(h)`, h in 1..40)",
 "C16-m11": "needed the rule 'a sample of a union result is never lighter than it was in its input sketch'",
 "C10-m11": "needed world `c10qq` (classic quantiles images of a foreign writer: compact, ordered flag clear, base buffer in arrival order; serial version 2)",
 "C17-m11": "as built (after the non-dyadic value patterns)", "C15-m11": "NOT caught: needs a filter above 2^32 bits (512 MiB of bit array) viewed through wrap/deserialize; the tiers stop at 2^20 bits", "C12-m11": "needed the `placed_purge` step (a fresh sketch at its maximum map size receives one key per home slot - std::hash<int64_t> is the identity, slot = fmix64(key) & mask - with a rotated light-only quarter and half of the rest heavy)",
 # round 3
 "C03-m4": "needed the `flat_fill` step (one input per slot, all with the same register value)",
 "C08-m3": "needed oracle 4: stride offsets of the classic down-sampling merge enumerated by scripting the 64-bit draw",
 "C08-m4": "needed world `c08s` (published error over simulator-owned coin sequences); caught by the one REQ class that stays live",
 "C11-m3": "needed every single-bit flip among the corruption values (a count byte 1 -> 9 / 17)",
 "C12-m3": "needed NO_FALSE_NEGATIVES queries below the maximum error",
 "C13-m3": "needed operands delivered as non-const lvalues and compared with the model afterwards",
 "C14-m3": "needed the confidence clause on a skewed stream (heavy items above relative_error x total)",
 "C14-m4": "needed restore through the stream reader with a non-default seed",
 "C16-m3": "needed world `c16s` (unbiasedness over simulator-owned draw sequences)",
 "C16-m4": "needed world `c16u` (unions of string sketches)",
 "C17-m4": "needed the `tiny_merges` scenario (thousands of one-value digests merged into a large one, k up to 400)",
 "C18-m3": "needed restore through the stream reader", "C18-m4": "needed exact (==) comparison of the merged cumulative weight with the sum",
 "C19-m3": "needed world `c19o` and reading lent operands after the operation", "C19-m4": "needed world `c19o` (operators as lifecycle objects)",
 # round 4
 "C03-m5": "needed the `twin_coupons` step (two inputs sharing all 26 address bits, found by a birthday search on the independent hash)",
 "C05-m6": "needed the `clustered_rows` step (every input in a narrow band of rows) followed by a checkpoint",
 "C08-m5": "needed read-only query steps between mutations and the rule 'the answered rank is the rank of the retained items'",
 "C08-m6": "needed REQ classes by the item's true position and the exact-zone scan over merge split points",
 "C10-m5": "needed redelivery after the version change (everything the writer had seen, offered again to the restored hll/cpc sketch)",
 "C10-m6": "needed world `c10tq` (t-digest reference-format images synthesised with a non-zero minimum)",
 "C11-m6": "needed an over-budget verdict for the families whose whole content is in the image (quantile sketches, t-digest; bytes path)",
 "C12-m5": "needed a floating-point weight type fed fractional weights (`fi<string,double>`)", "C12-m6": "needed objects of different maximum map size and copy assignment between them",
 "C14-m5": "needed the gate to accept a violation that keeps its fingerprint although the mutated code hashes an address (executions differ)", "C14-m6": "needed the 4-byte weight types (`countmin<u32>`, `countmin<float>`)",
 "C15-m6": "needed operands that are incompatible by hash count or seed only",
 "C16-m5": "needed a union that is reset and used again, compared with a fresh one", "C16-m6": "needed the union fed by move compared with the union fed by reference",
 "C17-m5": "needed the `one_value_then_buffered` scenario (a compress point while the digest holds one value)",
 "C19-m5": "needed union k up to 64 in the heap world (arrays that have grown before reset)", "C19-m6": "needed the `copy_then_continue_both` step (source and copy fed the same batch under the same draws stay equal)",
 "C10-m3": "caught by chance at first; now the CPC store adapter tops batches up to the code-table boundaries (3k/4, k/2, 3k/32, k)",
 "C11-m8": "needs an HLL_4 image with an exception table, which only long streams build at small lg_k: caught in one of three runs of the quick tier (see DESIGN 12, withdrawn spike items)",
 # round 5
 "C08-m8": "needed the rule 'each half-width of REQ's published interval only shrinks towards the accurate end' (the coverage classes are recorded findings)",
 "C09-m8": "needed string items that carry non-text bytes (0xFF, 0x80, 0x00)",
 "C10-m7": "needed a reader written from the documented KLL layout (k, n, min_k fields against what the API reported) and merges of a smaller-k sketch in the store histories",
 "C10-m8": "needed Tuple images relabelled with the legacy ids (serial version 1, sketch type 5)",
 "C14-m8": "needed the smallest legal table (3 buckets, 1..3 rows, one dominant item) in the confidence step",
 "C16-m8": "needed zero-weight updates in the batches",
 # round 6 (stored as m9 / m10)
 "C02-m10": "needed similarity_test / dissimilarity_test at, just above and just below the exact ratio",
 "C03-m9": "needed the `spikes` step (2..15 inputs with register value >= 16 in different slots: the HLL_4 exception table grows)",
 "C04-m10": "was not caught while lg_k was not judged after a reset; **obsolete since fix 067cd87** (a reset union is a new union of lg_max_k, so an empty gadget never has a reduced lg_k and the change no longer alters behaviour); lg_k is now judged after a reset",
 "C07-m10": "needed copy assignment onto a live sketch (not only copy construction), read at once",
 "C13-m9": "needed copy assignment between update sketches of different theta",
 "C15-m9": "needed set operations through a read-only target (refused) and a read-only view as source operand (accepted)",
 "C18-m9": "needed the reset object itself to be used again (the step used to replace it by a fresh one)",
 "C20-m9": "NOT caught: needs an allocation failure inside update(); allocation faults are not injected into mutating calls (exception safety is not a stated property)",
 "C20-m10": "needed a user kernel with state whose constructor argument differs from a default-constructed instance",
 "C20-m3": "needed refusals placed on the capacity boundary and the rule 'a refused operation leaves the observation unchanged'",
}
res = {}
p = os.path.join(ROOT, "seeded", "RESULTS.txt")
if os.path.exists(p):
    for l in open(p):
        m = re.match(r"(\S+) (\S+) (\S+) exit=(\d+) violations=(\d+) (.*)", l.strip())
        if m: res[m.group(2)] = (m.group(1), m.group(6))
out = ["| change | site | what it does (from the author's meta.json) | quick check of its property | first fingerprints | note |", "|---|---|---|---|---|---|"]
for d in sorted(glob.glob(os.path.join(ROOT, "seeded", "C*-m*"))):
    name = os.path.basename(d); meta = json.load(open(os.path.join(d, "meta.json")))
    files = sorted({l[6:].strip().split("/")[-1] for l in open(os.path.join(d, "patch.diff")) if l.startswith("+++ b/")})
    summ = re.sub(r"\s+", " ", (meta.get("summary") or "")).replace("|", "/")
    summ = summ[:230] + ("…" if len(summ) > 230 else "")
    st, fps = res.get(name, ("not run", ""))
    fps = ", ".join("`%s`" % f.replace("|", "¦") for f in re.findall(r"'([^']+)'", fps)[:2])
    out.append("| %s | %s | %s | %s | %s | %s |" % (name, ", ".join(files), summ, st, fps, NOTES.get(name, "as built")))
caught = sum(1 for v in res.values() if v[0] == "CAUGHT")
head = "%d seeded changes; %d caught by the quick check of their own property on the last full run (`tools/run_all_seeded.sh`).\n\n" % (len(out) - 2, caught)
open(os.path.join(ROOT, "seeded", "CATCH_MATRIX.md"), "w").write(head + "\n".join(out) + "\n")
print(head.strip())
