#!/bin/sh
# every claimed check at the given tier (default quick) on the current /repo tree, one after the other; summary lines to stdout
cd "$(dirname "$0")/.." || exit 2
tier=${1:-quick}; rc=0
for id in C01 C02 C03 C04 C05 C07 C08 C09 C10 C11 C12 C13 C14 C15 C16 C17 C18 C19 C20; do
  python3 verif.py check $id --tier $tier > /tmp/verif-$tier-$id.log 2>&1; e=$?
  echo "$id exit=$e $(grep -E "^$id $tier:" /tmp/verif-$tier-$id.log | tail -1)"; grep -E "^VIOLATION" /tmp/verif-$tier-$id.log | head -3
  [ $e -ne 0 ] && rc=1
done
exit $rc
