#!/bin/sh
# runs every seeded change (or those matching $1, a glob under seeded/) against the quick check of its property, one at a time
# (each run patches /repo and undoes it); appends to seeded/RESULTS.txt (replacing the lines of the changes it re-ran)
cd "$(dirname "$0")/.." || exit 2
pat=${1:-C*-m*}; out=seeded/RESULTS.txt.new; : > $out
for d in seeded/$pat; do [ -d "$d" ] || continue; python3 tools/run_seeded.py $d $SEEDED_ARGS 2>&1 | grep -E "^(CAUGHT|MISSED|MACHINERY)" | head -1 >> $out; done
touch seeded/RESULTS.txt
python3 - <<'PY'
import re
old=[l for l in open('seeded/RESULTS.txt') if l.strip()]; new=[l for l in open('seeded/RESULTS.txt.new') if l.strip()]
names={l.split()[1] for l in new}
keep=[l for l in old if l.split()[1] not in names]
open('seeded/RESULTS.txt','w').write(''.join(sorted(keep+new, key=lambda l: l.split()[1])))
PY
rm -f $out
