#!/bin/sh
# runs every seeded change against the quick check of its property, one at a time (each run patches /repo and undoes it); writes seeded/RESULTS.txt
cd "$(dirname "$0")/.." || exit 2
out=seeded/RESULTS.txt.new; : > $out
for d in seeded/C*-m*; do python3 tools/run_seeded.py $d | head -1 >> $out; done
mv $out seeded/RESULTS.txt
