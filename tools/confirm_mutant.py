#!/usr/bin/env python3
"""Confirm a sub-agent's seeded change in its scratch worktree: the patch applies, the demonstration fails with it and passes
without it, and the named unit-test targets still pass with it. On success copy it to /verif/seeded/<prop>-<m>/ .
Usage: tools/confirm_mutant.py C01 m1 [round-prefix, e.g. 3 -> /tmp/mutwt3-C01, /tmp/mut3-C01-out/m1, stored as m3]"""
import json, os, re, shutil, subprocess, sys
prop, m = sys.argv[1], sys.argv[2]
rnd = sys.argv[3] if len(sys.argv) > 3 else ""
wt, out = "/tmp/mutwt%s-%s" % (rnd, prop), "/tmp/mut%s-%s-out/%s" % (rnd, prop, m)
store = m if not rnd else "m%d" % (int(m[1:]) + 2 * (int(rnd) - 2))
meta = json.load(open(os.path.join(out, "meta.json")))
def sh(cmd, cwd=None, timeout=3600):
    return subprocess.run(cmd, shell=True, cwd=cwd, stdout=subprocess.PIPE, stderr=subprocess.STDOUT, text=True, timeout=timeout)
assert sh("git status --porcelain --untracked-files=no", wt).stdout.strip() == "", "worktree not clean"
first = open(os.path.join(out, "demo.cpp")).readline()
mm = re.search(r"(g\+\+|clang\+\+)[^\n]*", first)
incs = " ".join("-I%s/%s/include" % (wt, d) for d in "common theta tuple hll cpc kll req quantiles fi count sampling tdigest filters density".split())
extra = ""
if mm:
    for flag in ("-fsanitize=address", "-DDATASKETCHES_VERIF", "-fsanitize=undefined", "-std=c++14", "-std=c++17"):
        if flag in mm.group(0): extra += " " + flag
std = "" if "-std=" in extra else " -std=c++11"
cc = "g++%s -O1 -g%s %s %s/demo.cpp -o %s/demo.bin" % (std, extra, incs, out, out)
def demo():
    r = sh(cc)
    if r.returncode != 0: return "COMPILE-ERROR " + r.stdout[-400:]
    r = sh(out + "/demo.bin", timeout=900)
    return r.returncode
res = {}
res["demo_without"] = demo()
r = sh("git apply %s/patch.diff" % out, wt); assert r.returncode == 0, r.stdout
try:
    res["demo_with"] = demo()
    targets = [t.split()[0] for t in meta.get("tests_run", []) if t.split()[0].endswith("_test")]
    if not os.path.isdir(wt + "/_b"):
        sh("cmake -G Ninja -S %s -B %s/_b -DCMAKE_BUILD_TYPE=Release -DFETCHCONTENT_TRY_FIND_PACKAGE_MODE=ALWAYS" % (wt, wt))
    tests = {}
    for t in targets:
        b = sh("cmake --build %s/_b --target %s -j 8" % (wt, t))
        d = sh("find %s/_b -name %s -type f" % (wt, t)).stdout.split()
        if b.returncode != 0 or not d: tests[t] = "BUILD-FAILED"; continue
        rr = sh("./" + t, cwd=os.path.dirname(d[0]), timeout=1800)
        tests[t] = "pass" if rr.returncode == 0 else "FAIL"
    res["tests_with"] = tests
finally:
    sh("git checkout -- .", wt)
ok = res["demo_without"] == 0 and res["demo_with"] not in (0,) and not str(res["demo_with"]).startswith("COMPILE") and all(v == "pass" for v in res["tests_with"].values()) and res["tests_with"]
print(json.dumps(res), "CONFIRMED" if ok else "REJECTED")
if ok:
    dst = "/verif/seeded/%s-%s" % (prop, store)
    os.makedirs(dst, exist_ok=True)
    for f in ("patch.diff", "demo.cpp"): shutil.copy(os.path.join(out, f), dst)
    meta["confirmed_by_me"] = dict(demo_exit_without=res["demo_without"], demo_exit_with=res["demo_with"], unit_tests_with_change=res["tests_with"], demo_compile=cc.replace(out, "seeded/%s-%s" % (prop, store)))
    json.dump(meta, open(os.path.join(dst, "meta.json"), "w"), indent=1)
