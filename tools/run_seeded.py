#!/usr/bin/env python3
"""Apply one seeded change (seeded/<name>/patch.diff) to /repo, run the quick (or given tier) check of its property, undo.
Usage: tools/run_seeded.py seeded/<name> [--tier quick|thorough] [--prop Cxx] [--scratch]   -> prints CAUGHT / MISSED and the fingerprints.
--scratch: instead of patching /repo, the change is applied to a throw-away copy of /repo's HEAD under /var/tmp (VERIF_REPO points there, the evidence goes
to a throw-away directory); used while other checks are running against /repo itself."""
import json, os, subprocess, sys
ROOT = os.path.dirname(os.path.dirname(os.path.abspath(__file__)))
d = os.path.abspath(sys.argv[1]); tier = sys.argv[sys.argv.index("--tier") + 1] if "--tier" in sys.argv else "quick"
meta = json.load(open(os.path.join(d, "meta.json")))
prop = sys.argv[sys.argv.index("--prop") + 1] if "--prop" in sys.argv else meta["property"]
if "--scratch" in sys.argv:
    import shutil, tempfile
    tmp = tempfile.mkdtemp(prefix="mutrepo-", dir="/var/tmp")
    try:
        subprocess.run("git -C /repo archive HEAD | tar -x -C %s" % tmp, shell=True, check=True)
        subprocess.run(["git", "apply", "--directory", tmp.lstrip("/"), "--unsafe-paths", os.path.join(d, "patch.diff")], cwd="/", check=True)
        env = dict(os.environ); env.setdefault("VERIF_MAX_VIOLATIONS", "1"); env["VERIF_REPO"] = tmp; env["VERIF_EVIDENCE_DIR"] = os.path.join(tmp, "_evidence")
        r = subprocess.run([sys.executable, os.path.join(ROOT, "verif.py"), "check", prop, "--tier", tier], stdout=subprocess.PIPE, stderr=subprocess.PIPE, text=True, env=env)
    finally:
        shutil.rmtree(tmp, ignore_errors=True)
    fps = [l.strip()[len("fingerprint: "):] for l in r.stdout.splitlines() if l.strip().startswith("fingerprint:")]
    print("%s %s %s exit=%d violations=%d %s" % ("CAUGHT" if r.returncode == 1 else ("MISSED" if r.returncode == 0 else "MACHINERY-ERROR"), os.path.basename(d), prop, r.returncode, len(fps), sorted(set(fps))[:4]))
    sys.exit(0)
assert subprocess.run(["git", "-C", "/repo", "status", "--porcelain", "--untracked-files=no"], stdout=subprocess.PIPE, text=True).stdout.strip() == "", "/repo has local edits"
ev = os.path.join(ROOT, "evidence", prop + ".json"); saved = open(ev).read() if os.path.exists(ev) else None   # evidence must describe the unchanged tree
subprocess.run(["git", "-C", "/repo", "apply", os.path.join(d, "patch.diff")], check=True)
try:
    env = dict(os.environ); env.setdefault("VERIF_MAX_VIOLATIONS", "1")   # one minimised violation per worker is enough to call a change caught
    r = subprocess.run([sys.executable, os.path.join(ROOT, "verif.py"), "check", prop, "--tier", tier], stdout=subprocess.PIPE, stderr=subprocess.PIPE, text=True, env=env)
finally:
    subprocess.run(["git", "-C", "/repo", "checkout", "--", "."], check=True)
    if saved is not None: open(ev, "w").write(saved)
fps = [l.strip()[len("fingerprint: "):] for l in r.stdout.splitlines() if l.strip().startswith("fingerprint:")]
print("%s %s %s exit=%d violations=%d %s" % ("CAUGHT" if r.returncode == 1 else ("MISSED" if r.returncode == 0 else "MACHINERY-ERROR"), os.path.basename(d), prop, r.returncode, len(fps), sorted(set(fps))[:4]))
print(r.stderr.strip().splitlines()[-1] if r.stderr.strip() else "")
