// adapters over the set-operation ("operator") types, for world `heap` (C19: "every sketch and operator type"):
// theta union / intersection / a-not-b, tuple union / intersection with an instrumented summary, array-of-doubles union / intersection,
// hll union, cpc union. An operator is fed whole sketches (built here from the feed arguments, by reference or by move); its observation
// is the complete content of get_result(). Operators have no image: the serialize step is a no-op for them.
#ifndef DSIM_FAM_OPS_HPP
#define DSIM_FAM_OPS_HPP
#include "fam_common.hpp"
#include <theta_sketch.hpp>
#include <theta_union.hpp>
#include <theta_intersection.hpp>
#include <theta_a_not_b.hpp>
#include <tuple_sketch.hpp>
#include <tuple_union.hpp>
#include <tuple_intersection.hpp>
#include <tuple_a_not_b.hpp>
#include <array_tuple_sketch.hpp>
#include <array_tuple_union.hpp>
#include <array_tuple_intersection.hpp>
#include <hll.hpp>
#include <cpc_sketch.hpp>
#include <cpc_union.hpp>

namespace fam {
namespace ds = datasketches;
static const u64 OP_SEEDS[3] = { ds::DEFAULT_SEED, 12345, 0x9e3779b97f4a7c15ULL };
static const float OP_P[4] = { 1.0f, 1.0f, 0.5f, 0.1f };

// generic shell: Tr supplies the operator type, construction, feeding, observation and (optionally) reset
template<typename Tr> struct OpSk: Sk {
  typedef typename Tr::Op Op;
  std::vector<i64> cfg; std::unique_ptr<Op> op;
  explicit OpSk(const i64* c): cfg(c, c + Tr::CFG), op(new Op(Tr::make(c))) {}
  OpSk(const std::vector<i64>& c, Op* o): cfg(c), op(o) {}
  const char* fam() const override { return Tr::name(); }
  Sk* clone() const override { return new OpSk(cfg, new Op(*op)); }
  Sk* move_out() override { return new OpSk(cfg, new Op(std::move(*op))); }
  void copy_assign(const Sk& o) override { const OpSk& x = static_cast<const OpSk&>(o); cfg = x.cfg; *op = *x.op; }
  void move_assign(Sk& o) override { OpSk& x = static_cast<OpSk&>(o); cfg = x.cfg; *op = std::move(*x.op); }
  void feed(i64 start, i64 count, i64 pattern) override { Tr::feed(*op, cfg.data(), start, count, pattern); }
  void merge(const Sk& o) override { Tr::absorb(*op, *static_cast<const OpSk&>(o).op, false); }
  void merge_move(Sk& o) override { Op tmp(std::move(*static_cast<OpSk&>(o).op)); Tr::absorb(*op, tmp, true); }
  void reset() override { Tr::reset(*op); }
  std::string obs(bool) const override { return Tr::obs(*op); }
  bool variant_ok(int) const override { return false; }
  Bytes ser(int, unsigned) const override { return Bytes(); }
  void ser_os(int, std::ostream&) const override {}
  Sk* de(int, const uint8_t*, size_t) const override { return nullptr; }
  Sk* de_is(int, std::istream&) const override { return nullptr; }
  bool can_continue() const override { return false; }
};
template<typename Tr> struct OpFamily: Family {
  const char* name() const override { return Tr::name(); }
  void gen_cfg(sim::Rng& r, std::vector<i64>& cfg, int tier) const override { Tr::gen_cfg(r, cfg, tier); }
  int cfg_len() const override { return Tr::CFG; }
  Sk* make(const i64* cfg) const override { return new OpSk<Tr>(cfg); }
};

// ------------------------------------------------------------------ theta
typedef sim::talloc<uint64_t> TA;
typedef ds::update_theta_sketch_alloc<TA> ThU; typedef ds::compact_theta_sketch_alloc<TA> ThC;
inline ThU theta_input(const i64* c, i64 start, i64 count, i64 pattern) {
  ThU s = typename ThU::builder(TA(ARENA)).set_lg_k(static_cast<uint8_t>(c[0])).set_p(OP_P[(pattern >> 3) & 3]).set_seed(OP_SEEDS[c[1] % 3]).build();
  for (i64 j = 0; j < count; j++) s.update(static_cast<int64_t>(feed_value(start, j, count, pattern)));
  return s;
}
template<typename S> std::string obs_theta_result(const S& r) {
  std::vector<u64> e; for (auto it = r.begin(); it != r.end(); ++it) e.push_back(*it); std::sort(e.begin(), e.end());
  std::string o = "theta=" + std::to_string(r.get_theta64()) + " empty=" + std::to_string(r.is_empty()) + " n=" + std::to_string(e.size()) + " est=" + d2s(r.get_estimate()) + " h=" + std::to_string(sim::fnv1a(e.data(), e.size() * 8));
  return o;
}
// an operand that was only lent (non-const lvalue) is read again afterwards: with the instrumented summary type, reading a summary that the operation
// moved out of it is reported by the item seam
template<typename S> void touch_operand(const S&) {}
// delivery forms of an input sketch: update sketch / ordered compact / unordered compact, each by reference or by move
template<typename Op, typename U> void deliver_theta_like(Op& op, U& s, i64 pattern) {
  switch ((pattern >> 5) % 6) {
    case 0: op.update(s); touch_operand(s); break;
    case 1: op.update(std::move(s)); break;
    case 2: { auto c = s.compact(true); op.update(c); touch_operand(c); break; }
    case 3: { auto c = s.compact(true); op.update(std::move(c)); break; }
    case 4: { auto c = s.compact(false); op.update(c); touch_operand(c); break; }
    default: { auto c = s.compact(false); op.update(std::move(c)); break; }
  }
}
struct ThetaUnionTr {
  typedef ds::theta_union_alloc<TA> Op; static const int CFG = 3;
  static const char* name() { return "theta_union"; }
  static void gen_cfg(sim::Rng& r, std::vector<i64>& c, int) { static const int lg[] = { 5, 5, 6, 8 }; c.push_back(r.pick(lg)); c.push_back(static_cast<i64>(r.below(3))); c.push_back(r.pick(lg)); }
  static Op make(const i64* c) { return typename Op::builder(TA(ARENA)).set_lg_k(static_cast<uint8_t>(c[2])).set_seed(OP_SEEDS[c[1] % 3]).build(); }
  static void feed(Op& op, const i64* c, i64 start, i64 count, i64 pattern) { ThU s = theta_input(c, start, count, pattern); deliver_theta_like(op, s, pattern); }
  static void absorb(Op& op, const Op& o, bool mv) { ThC r = o.get_result((mv ? 1 : 0) != 0); if (mv) op.update(std::move(r)); else op.update(r); }
  static void reset(Op& op) { op.reset(); }
  static std::string obs(const Op& op) { return obs_theta_result(op.get_result(true)); }
};
struct ThetaInterTr {
  typedef ds::theta_intersection_alloc<TA> Op; static const int CFG = 3;
  static const char* name() { return "theta_intersection"; }
  static void gen_cfg(sim::Rng& r, std::vector<i64>& c, int t) { ThetaUnionTr::gen_cfg(r, c, t); }
  static Op make(const i64* c) { return Op(OP_SEEDS[c[1] % 3], TA(ARENA)); }
  // inputs overlap heavily (start is folded) so that intersections stay non-trivial
  static void feed(Op& op, const i64* c, i64 start, i64 count, i64 pattern) { ThU s = theta_input(c, start % 64, count, pattern & ~7); deliver_theta_like(op, s, pattern); }
  static void absorb(Op& op, const Op& o, bool mv) { if (!o.has_result()) return; ThC r = o.get_result(!mv); if (mv) op.update(std::move(r)); else op.update(r); }
  static void reset(Op&) {}
  static std::string obs(const Op& op) { return op.has_result() ? obs_theta_result(op.get_result(true)) : std::string("no-result"); }
};
struct ThetaAnotBTr {   // stateless apart from seed hash and allocator: the pool still copies, moves, assigns and destroys it around compute()
  struct Op { ds::theta_a_not_b_alloc<TA> anb; ThC last; Op(u64 seed): anb(seed, TA(ARENA)), last(typename ThU::builder(TA(ARENA)).set_seed(seed).build().compact()) {} };
  static const int CFG = 3;
  static const char* name() { return "theta_a_not_b"; }
  static void gen_cfg(sim::Rng& r, std::vector<i64>& c, int t) { ThetaUnionTr::gen_cfg(r, c, t); }
  static Op make(const i64* c) { return Op(OP_SEEDS[c[1] % 3]); }
  static void feed(Op& op, const i64* c, i64 start, i64 count, i64 pattern) { ThU b = theta_input(c, start % 64, count, pattern & ~7);
    if ((pattern >> 5) & 1) op.last = op.anb.compute(std::move(op.last), b, (pattern >> 6) & 1); else { ThU a = theta_input(c, start % 32, count * 2 + 3, 0); op.last = op.anb.compute(a, b.compact((pattern & 1) != 0), true); } }
  static void absorb(Op& op, const Op& o, bool) { op.last = op.anb.compute(op.last, o.last, true); }
  static void reset(Op&) {}
  static std::string obs(const Op& op) { return obs_theta_result(op.last); }
};

// ------------------------------------------------------------------ tuple with an instrumented summary (constructed / destroyed exactly once, no read of a moved-from summary)
struct tsum_update_policy { sim::titem create() const { return sim::titem(0); } void update(sim::titem& s, const i64& v) const { s = sim::titem(s.value() + v); } };
struct tsum_set_policy { void operator()(sim::titem& s, const sim::titem& o) const { s = sim::titem(s.value() + o.value()); } };
typedef sim::talloc<sim::titem> TTA;
typedef ds::update_tuple_sketch<sim::titem, i64, tsum_update_policy, TTA> TuU; typedef ds::compact_tuple_sketch<sim::titem, TTA> TuC;
inline TuU tuple_input(const i64* c, i64 start, i64 count, i64 pattern) {
  TuU s = typename TuU::builder(tsum_update_policy(), TTA(ARENA)).set_lg_k(static_cast<uint8_t>(c[0])).set_p(OP_P[(pattern >> 3) & 3]).set_seed(OP_SEEDS[c[1] % 3]).build();
  for (i64 j = 0; j < count; j++) { const i64 v = feed_value(start, j, count, pattern); s.update(static_cast<int64_t>(v), static_cast<i64>(1 + (v & 7))); }
  return s;
}
inline void touch_operand(const TuU& s) { i64 t = 0; for (auto it = s.begin(); it != s.end(); ++it) t += it->second.value(); (void)t; }
inline void touch_operand(const TuC& s) { i64 t = 0; for (auto it = s.begin(); it != s.end(); ++it) t += it->second.value(); (void)t; }
template<typename S> std::string obs_tuple_result(const S& r) {
  std::vector<std::pair<u64, i64>> e; for (auto it = r.begin(); it != r.end(); ++it) e.push_back(std::make_pair(it->first, it->second.value())); std::sort(e.begin(), e.end());
  u64 h = 0xcbf29ce484222325ULL; for (auto& kv : e) { h = sim::fnv1a(&kv.first, 8, h); h = sim::fnv1a(&kv.second, 8, h); }
  return "theta=" + std::to_string(r.get_theta64()) + " empty=" + std::to_string(r.is_empty()) + " n=" + std::to_string(e.size()) + " est=" + d2s(r.get_estimate()) + " h=" + std::to_string(h);
}
struct TupleUnionTr {
  typedef ds::tuple_union<sim::titem, tsum_set_policy, TTA> Op; static const int CFG = 3;
  static const char* name() { return "tuple_union<titem>"; }
  static void gen_cfg(sim::Rng& r, std::vector<i64>& c, int t) { ThetaUnionTr::gen_cfg(r, c, t); }
  static Op make(const i64* c) { return typename Op::builder(tsum_set_policy(), TTA(ARENA)).set_lg_k(static_cast<uint8_t>(c[2])).set_seed(OP_SEEDS[c[1] % 3]).build(); }
  static void feed(Op& op, const i64* c, i64 start, i64 count, i64 pattern) { TuU s = tuple_input(c, start, count, pattern); deliver_theta_like(op, s, pattern); }
  static void absorb(Op& op, const Op& o, bool mv) { TuC r = o.get_result(!mv); if (mv) op.update(std::move(r)); else op.update(r); }
  static void reset(Op& op) { op.reset(); }
  static std::string obs(const Op& op) { return obs_tuple_result(op.get_result(true)); }
};
struct TupleInterTr {
  typedef ds::tuple_intersection<sim::titem, tsum_set_policy, TTA> Op; static const int CFG = 3;
  static const char* name() { return "tuple_intersection<titem>"; }
  static void gen_cfg(sim::Rng& r, std::vector<i64>& c, int t) { ThetaUnionTr::gen_cfg(r, c, t); }
  static Op make(const i64* c) { return Op(OP_SEEDS[c[1] % 3], tsum_set_policy(), TTA(ARENA)); }
  static void feed(Op& op, const i64* c, i64 start, i64 count, i64 pattern) { TuU s = tuple_input(c, start % 64, count, pattern & ~7); deliver_theta_like(op, s, pattern); }
  static void absorb(Op& op, const Op& o, bool mv) { if (!o.has_result()) return; TuC r = o.get_result(!mv); if (mv) op.update(std::move(r)); else op.update(r); }
  static void reset(Op&) {}
  static std::string obs(const Op& op) { return op.has_result() ? obs_tuple_result(op.get_result(true)) : std::string("no-result"); }
};
struct TupleAnotBTr {
  struct Op { ds::tuple_a_not_b<sim::titem, TTA> anb; TuC last; Op(u64 seed): anb(seed, TTA(ARENA)), last(typename TuU::builder(tsum_update_policy(), TTA(ARENA)).set_seed(seed).build().compact()) {} };
  static const int CFG = 3;
  static const char* name() { return "tuple_a_not_b<titem>"; }
  static void gen_cfg(sim::Rng& r, std::vector<i64>& c, int t) { ThetaUnionTr::gen_cfg(r, c, t); }
  static Op make(const i64* c) { return Op(OP_SEEDS[c[1] % 3]); }
  static void feed(Op& op, const i64* c, i64 start, i64 count, i64 pattern) { TuU b = tuple_input(c, start % 64, count, pattern & ~7);
    if ((pattern >> 5) & 1) op.last = op.anb.compute(std::move(op.last), b, (pattern >> 6) & 1);
    else { TuU a = tuple_input(c, start % 32, count * 2 + 3, 0);
      if ((pattern >> 6) & 1) op.last = op.anb.compute(std::move(a), b.compact((pattern & 1) != 0), true);
      else { TuC bc = b.compact((pattern & 1) != 0); op.last = op.anb.compute(a, bc, true); touch_operand(a); touch_operand(bc); TuC ac = a.compact((pattern & 2) != 0); op.last = op.anb.compute(ac, b, true); touch_operand(ac); touch_operand(b); } } }
  static void absorb(Op& op, const Op& o, bool) { op.last = op.anb.compute(op.last, o.last, true); }
  static void reset(Op&) {}
  static std::string obs(const Op& op) { return obs_tuple_result(op.last); }
};

// ------------------------------------------------------------------ array of doubles
typedef sim::talloc<double> DA; typedef ds::array<double, DA> AodSum;
typedef ds::update_array_tuple_sketch<AodSum, ds::default_array_tuple_update_policy<AodSum, DA>, DA> AoU;
inline AoU aod_input(const i64* c, i64 start, i64 count, i64 pattern) {
  const uint8_t nv = static_cast<uint8_t>(1 + c[1] % 3);
  AoU s = typename AoU::builder(ds::default_array_tuple_update_policy<AodSum, DA>(nv, DA(ARENA)), DA(ARENA)).set_lg_k(static_cast<uint8_t>(c[0])).set_p(OP_P[(pattern >> 3) & 3]).build();
  std::vector<double> v(nv); for (i64 j = 0; j < count; j++) { const i64 x = feed_value(start, j, count, pattern); for (uint8_t i = 0; i < nv; i++) v[i] = static_cast<double>(1 + ((x + i) & 7)) * 0.25; s.update(static_cast<int64_t>(x), v); }
  return s;
}
template<typename S> std::string obs_aod_result(const S& r) {
  std::vector<std::pair<u64, double>> e; for (auto it = r.begin(); it != r.end(); ++it) { double t = 0; for (int i = 0; i < it->second.size(); i++) t = t * 3 + it->second[static_cast<size_t>(i)]; e.push_back(std::make_pair(it->first, t)); } std::sort(e.begin(), e.end());
  u64 h = 0xcbf29ce484222325ULL; for (auto& kv : e) { h = sim::fnv1a(&kv.first, 8, h); h = sim::fnv1a(&kv.second, 8, h); }
  return "theta=" + std::to_string(r.get_theta64()) + " empty=" + std::to_string(r.is_empty()) + " n=" + std::to_string(e.size()) + " est=" + d2s(r.get_estimate()) + " h=" + std::to_string(h);
}
struct AodUnionTr {
  typedef ds::array_tuple_union<AodSum, ds::default_array_tuple_union_policy<AodSum>, DA> Op; static const int CFG = 3;
  static const char* name() { return "array_of_doubles_union"; }
  static void gen_cfg(sim::Rng& r, std::vector<i64>& c, int t) { ThetaUnionTr::gen_cfg(r, c, t); }
  static Op make(const i64* c) { return typename Op::builder(ds::default_array_tuple_union_policy<AodSum>(static_cast<uint8_t>(1 + c[1] % 3)), DA(ARENA)).set_lg_k(static_cast<uint8_t>(c[2])).build(); }
  static void feed(Op& op, const i64* c, i64 start, i64 count, i64 pattern) { AoU s = aod_input(c, start, count, pattern); deliver_theta_like(op, s, pattern); }
  static void absorb(Op& op, const Op& o, bool mv) { auto r = o.get_result(!mv); if (mv) op.update(std::move(r)); else op.update(r); }
  static void reset(Op& op) { op.reset(); }
  static std::string obs(const Op& op) { return obs_aod_result(op.get_result(true)); }
};
struct AodInterTr {
  typedef ds::array_tuple_intersection<AodSum, ds::default_array_tuple_union_policy<AodSum>, DA> Op; static const int CFG = 3;
  static const char* name() { return "array_of_doubles_intersection"; }
  static void gen_cfg(sim::Rng& r, std::vector<i64>& c, int t) { ThetaUnionTr::gen_cfg(r, c, t); }
  static Op make(const i64* c) { return Op(ds::DEFAULT_SEED, ds::default_array_tuple_union_policy<AodSum>(static_cast<uint8_t>(1 + c[1] % 3)), DA(ARENA)); }
  static void feed(Op& op, const i64* c, i64 start, i64 count, i64 pattern) { AoU s = aod_input(c, start % 64, count, pattern & ~7); deliver_theta_like(op, s, pattern); }
  static void absorb(Op& op, const Op& o, bool mv) { if (!o.has_result()) return; auto r = o.get_result(!mv); if (mv) op.update(std::move(r)); else op.update(r); }
  static void reset(Op&) {}
  static std::string obs(const Op& op) { return op.has_result() ? obs_aod_result(op.get_result(true)) : std::string("no-result"); }
};

// ------------------------------------------------------------------ hll, cpc
typedef sim::talloc<uint8_t> BA;
struct HllUnionTr {
  typedef ds::hll_union_alloc<BA> Op; typedef ds::hll_sketch_alloc<BA> S; static const int CFG = 3;
  static const char* name() { return "hll_union"; }
  static void gen_cfg(sim::Rng& r, std::vector<i64>& c, int) { static const int lg[] = { 4, 7, 8, 10, 12 }; c.push_back(r.pick(lg)); c.push_back(static_cast<i64>(r.below(3))); c.push_back(r.pick(lg)); }
  static Op make(const i64* c) { return Op(static_cast<uint8_t>(c[2]), BA(ARENA)); }
  static void feed(Op& op, const i64* c, i64 start, i64 count, i64 pattern) {
    S s(static_cast<uint8_t>(c[0]), static_cast<ds::target_hll_type>((c[1] + (pattern >> 3)) % 3), ((pattern >> 6) & 1) != 0, BA(ARENA));
    for (i64 j = 0; j < count; j++) s.update(static_cast<int64_t>(feed_value(start, j, count, pattern)));
    if ((pattern >> 5) & 1) op.update(std::move(s)); else op.update(s);
  }
  static void absorb(Op& op, const Op& o, bool mv) { S r = o.get_result(mv ? ds::HLL_8 : ds::HLL_4); if (mv) op.update(std::move(r)); else op.update(r); }
  static void reset(Op& op) { op.reset(); }
  // the estimate is asked for first: a getter of the union settles the gadget's lazily rebuilt (cur_min, num_at_cur_min), which an HLL_8 result
  // image taken before and after would otherwise show in two equally valid forms
  static std::string obs(const Op& op) { const double est = op.get_composite_estimate(); S r = op.get_result(ds::HLL_8); auto b = r.serialize_updatable();
    return "lgk=" + std::to_string(r.get_lg_config_k()) + " empty=" + std::to_string(r.is_empty()) + " est=" + d2s(est) + " lb=" + d2s(op.get_lower_bound(2)) + " ub=" + d2s(op.get_upper_bound(2)) + " img=" + std::to_string(b.size()) + ":" + std::to_string(sim::fnv1a(b.data(), b.size())); }
};
struct CpcUnionTr {
  typedef ds::cpc_union_alloc<BA> Op; typedef ds::cpc_sketch_alloc<BA> S; static const int CFG = 3;
  static const char* name() { return "cpc_union"; }
  static void gen_cfg(sim::Rng& r, std::vector<i64>& c, int) { static const int lg[] = { 4, 6, 8, 10, 11 }; c.push_back(r.pick(lg)); c.push_back(static_cast<i64>(r.below(3))); c.push_back(r.pick(lg)); }
  static Op make(const i64* c) { return Op(static_cast<uint8_t>(c[2]), OP_SEEDS[c[1] % 3], BA(ARENA)); }
  static void feed(Op& op, const i64* c, i64 start, i64 count, i64 pattern) {
    S s(static_cast<uint8_t>(c[0]), OP_SEEDS[c[1] % 3], BA(ARENA)); const i64 scale = ((pattern >> 3) & 3) == 3 ? 40 : 1;   // some inputs reach the windowed flavours
    for (i64 j = 0; j < count * scale; j++) s.update(static_cast<int64_t>(feed_value(start, j, count * scale, pattern)));
    if ((pattern >> 5) & 1) op.update(std::move(s)); else op.update(s);
  }
  static void absorb(Op& op, const Op& o, bool mv) { S r = o.get_result(); if (mv) op.update(std::move(r)); else op.update(r); }
  static void reset(Op&) {}
  static std::string obs(const Op& op) { S r = op.get_result(); auto b = r.serialize();
    return "lgk=" + std::to_string(r.get_lg_k()) + " empty=" + std::to_string(r.is_empty()) + " est=" + d2s(r.get_estimate()) + " img=" + std::to_string(b.size()) + ":" + std::to_string(sim::fnv1a(b.data(), b.size())); }
};

inline void register_ops() {
  static OpFamily<ThetaUnionTr> a; static OpFamily<ThetaInterTr> b; static OpFamily<ThetaAnotBTr> c; static OpFamily<TupleUnionTr> d; static OpFamily<TupleInterTr> e; static OpFamily<TupleAnotBTr> f;
  static OpFamily<AodUnionTr> g; static OpFamily<AodInterTr> h; static OpFamily<HllUnionTr> i; static OpFamily<CpcUnionTr> j;
  for (Family* x : std::vector<Family*>{ &a, &b, &c, &d, &e, &f, &g, &h, &i, &j }) families().push_back(x);
}

} // namespace fam
#endif
