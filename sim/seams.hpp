// dsim seams: tracking allocator, tracked item, simulated file buffer, library random source, independent hashes.
#ifndef DSIM_SEAMS_HPP
#define DSIM_SEAMS_HPP
#include "core.hpp"
#include <streambuf>
#include <istream>
#include <ostream>
#include <new>
#include <memory>
#include <common_defs.hpp>   // datasketches::verif::random_source (hook H1)

namespace sim {

// ================================================================== tracking allocator
struct AllocState {
  struct Block { size_t bytes; int arena; };
  std::map<const void*, Block> live;      // keyed by address; never iterated into a trace (addresses are not deterministic)
  size_t live_bytes = 0;
  u64 allocations = 0;
  size_t budget = static_cast<size_t>(-1);   // per-request limit; larger requests are refused with bad_alloc and recorded
  size_t refused_max = 0; u64 refused = 0;
  u64 default_constructed = 0;               // library built an allocator out of thin air
  u64 arena0_allocs = 0;                     // allocations through such an allocator
  std::vector<std::string> errors;           // mismatched or unknown deallocations
  i64 fail_after = -1;                       // >= 0: the (fail_after+1)-th request from now is refused with bad_alloc (armed around one mutating call only, DESIGN 3.3)
  u64 injected_failures = 0;
  void reset_counters() { refused_max = 0; refused = 0; default_constructed = 0; arena0_allocs = 0; errors.clear(); }
};
inline AllocState& alloc_state() { static AllocState s; return s; }

template<typename T> struct talloc {
  typedef T value_type;
  typedef T* pointer; typedef const T* const_pointer; typedef T& reference; typedef const T& const_reference;
  typedef std::size_t size_type; typedef std::ptrdiff_t difference_type;
  template<typename U> struct rebind { typedef talloc<U> other; };
  int arena;
  talloc(): arena(0) { alloc_state().default_constructed++; }
  explicit talloc(int arena_): arena(arena_) {}
  talloc(const talloc& o): arena(o.arena) {}
  template<typename U> talloc(const talloc<U>& o): arena(o.arena) {}
  talloc& operator=(const talloc& o) { arena = o.arena; return *this; }
  T* allocate(size_type n, const void* = nullptr) {
    AllocState& s = alloc_state();
    if (n > static_cast<size_type>(-1) / sizeof(T)) { s.refused++; s.refused_max = static_cast<size_t>(-1); throw std::bad_alloc(); }
    const size_t bytes = n * sizeof(T);
    if (s.fail_after >= 0 && s.fail_after-- == 0) { s.injected_failures++; throw std::bad_alloc(); }
    if (bytes > s.budget) { s.refused++; s.refused_max = std::max(s.refused_max, bytes); throw std::bad_alloc(); }
    void* p = std::malloc(bytes ? bytes : 1);
    if (!p) throw std::bad_alloc();
    s.live[p] = AllocState::Block{bytes, arena};
    s.live_bytes += bytes; s.allocations++;
    if (arena == 0) s.arena0_allocs++;
    return static_cast<T*>(p);
  }
  void deallocate(T* p, size_type n) {
    AllocState& s = alloc_state();
    if (p == nullptr) { if (n != 0) s.errors.push_back("deallocate(nullptr, n>0)"); return; }
    auto it = s.live.find(p);
    if (it == s.live.end()) { s.errors.push_back("deallocate of a block that is not live (double free or foreign pointer)"); return; }
    if (it->second.bytes != n * sizeof(T)) s.errors.push_back("deallocate size mismatch: allocated " + std::to_string(it->second.bytes) + " bytes, released as " + std::to_string(n * sizeof(T)));
    if (it->second.arena != arena) s.errors.push_back("deallocate through an allocator of another arena: " + std::to_string(it->second.arena) + " vs " + std::to_string(arena));
    s.live_bytes -= it->second.bytes;
    s.live.erase(it);
    std::free(p);
  }
  size_type max_size() const { return static_cast<size_type>(-1) / sizeof(T); }
  template<typename U, typename... Args> void construct(U* p, Args&&... args) { ::new(static_cast<void*>(p)) U(std::forward<Args>(args)...); }
  template<typename U> void destroy(U* p) { p->~U(); }
};
template<typename T, typename U> bool operator==(const talloc<T>& a, const talloc<U>& b) { return a.arena == b.arena; }
template<typename T, typename U> bool operator!=(const talloc<T>& a, const talloc<U>& b) { return a.arena != b.arena; }

// snapshot used for "a rejected image leaks nothing" and "when the last object dies nothing remains"
struct AllocMark {
  size_t blocks, bytes;
  AllocMark(): blocks(alloc_state().live.size()), bytes(alloc_state().live_bytes) {}
  bool balanced() const { return alloc_state().live.size() == blocks && alloc_state().live_bytes == bytes; }
  std::string diff() const { return "live blocks " + std::to_string(blocks) + " -> " + std::to_string(alloc_state().live.size()) + ", bytes " + std::to_string(bytes) + " -> " + std::to_string(alloc_state().live_bytes); }
};

// ================================================================== tracked item
struct ItemState {
  std::set<const void*> live;
  std::vector<std::string> errors;
  u64 constructed = 0, destroyed = 0;
};
inline ItemState& item_state() { static ItemState s; return s; }

struct titem {
  i64 v; uint32_t tag;
  static const uint32_t ALIVE = 0xA11CE5u, MOVED = 0x30FEDu, DEAD = 0xDEADu;
  void reg() { ItemState& s = item_state(); s.constructed++; if (!s.live.insert(this).second) s.errors.push_back("item constructed over a live item"); }
  // copying or moving a moved-from item is legal (swap does it): the unspecified state travels with it; only reading its value is an error
  void chk(const titem& o, const char* what) const { if (o.tag == DEAD || item_state().live.count(&o) == 0) item_state().errors.push_back(std::string(what) + " from an item that is not alive"); }
  static uint32_t carry(const titem& o) { return o.tag == MOVED ? MOVED : ALIVE; }
  titem(): v(0), tag(ALIVE) { reg(); }
  titem(i64 v_): v(v_), tag(ALIVE) { reg(); }
  titem(const titem& o): v(o.v), tag(carry(o)) { chk(o, "copy-construct"); reg(); }
  titem(titem&& o) noexcept: v(o.v), tag(carry(o)) { chk(o, "move-construct"); reg(); o.tag = MOVED; }
  titem& operator=(const titem& o) { chk(o, "copy-assign"); must_live("assigned to"); v = o.v; tag = carry(o); return *this; }
  titem& operator=(titem&& o) noexcept { if (this != &o) { chk(o, "move-assign"); must_live("assigned to"); v = o.v; tag = carry(o); o.tag = MOVED; } return *this; }
  ~titem() {
    ItemState& s = item_state(); s.destroyed++;
    if (s.live.erase(this) == 0) s.errors.push_back(tag == DEAD ? "item destroyed twice" : "destruction of a never-constructed item");
    tag = DEAD;
  }
  void must_live(const char* what) const { if (item_state().live.count(this) == 0) item_state().errors.push_back(std::string("item ") + what + " while not alive"); }
  i64 value() const { must_live("read"); if (tag == MOVED) item_state().errors.push_back("read of a moved-from item"); return v; }
};
inline bool operator<(const titem& a, const titem& b) { return a.value() < b.value(); }
inline bool operator==(const titem& a, const titem& b) { return a.value() == b.value(); }
inline std::ostream& operator<<(std::ostream& os, const titem& t) { return os << "t" << t.v; }
struct titem_less { bool operator()(const titem& a, const titem& b) const { return a.value() < b.value(); } };
struct titem_hash { size_t operator()(const titem& a) const { u64 x = static_cast<u64>(a.value()); return static_cast<size_t>(splitmix64(x)); } };
struct titem_serde {
  void serialize(std::ostream& os, const titem* items, unsigned num) const { for (unsigned i = 0; i < num; i++) { i64 v = items[i].value(); os.write(reinterpret_cast<const char*>(&v), 8); } }
  void deserialize(std::istream& is, titem* items, unsigned num) const {
    unsigned i = 0;
    try {
      for (; i < num; i++) { i64 v = 0; is.read(reinterpret_cast<char*>(&v), 8); if (!is.good()) throw std::runtime_error("titem_serde: stream failure"); new (&items[i]) titem(v); }
    } catch (...) { for (unsigned j = 0; j < i; j++) items[j].~titem(); throw; }
  }
  size_t size_of_item(const titem&) const { return 8; }
  size_t serialize(void* ptr, size_t capacity, const titem* items, unsigned num) const {
    if (capacity < 8ull * num) throw std::out_of_range("titem_serde: capacity");
    for (unsigned i = 0; i < num; i++) { i64 v = items[i].value(); std::memcpy(static_cast<char*>(ptr) + 8 * i, &v, 8); }
    return 8ull * num;
  }
  size_t deserialize(const void* ptr, size_t capacity, titem* items, unsigned num) const {
    if (capacity < 8ull * num) throw std::out_of_range("titem_serde: capacity");
    for (unsigned i = 0; i < num; i++) { i64 v; std::memcpy(&v, static_cast<const char*>(ptr) + 8 * i, 8); new (&items[i]) titem(v); }
    return 8ull * num;
  }
};

// ================================================================== simulated file (read side)
// A read-only streambuf over a byte vector with scheduler-controlled chunking, EOF point and failure point.
class SimFileBuf: public std::streambuf {
public:
  SimFileBuf(const uint8_t* data, size_t size, size_t start, size_t chunk, size_t eof_at, size_t throw_at):
    data_(reinterpret_cast<char*>(const_cast<uint8_t*>(data))), size_(std::min(size, eof_at)), pos_(start), start_(start), chunk_(chunk ? chunk : 1), throw_at_(throw_at) {
    setg(data_ + pos_, data_ + pos_, data_ + pos_);
  }
  size_t consumed() const { return static_cast<size_t>(gptr() - data_) - start_; }   // bytes handed to the reader and taken by it
  u64 refills() const { return refills_; }
protected:
  int_type underflow() override {
    if (gptr() < egptr()) return traits_type::to_int_type(*gptr());
    size_t cur = static_cast<size_t>(gptr() - data_);
    if (cur >= throw_at_) throw std::ios_base::failure("simulated I/O error");
    if (cur >= size_) return traits_type::eof();
    size_t n = std::min(chunk_, size_ - cur);
    if (throw_at_ > cur) n = std::min(n, throw_at_ - cur);
    refills_++;
    setg(data_ + cur, data_ + cur, data_ + cur + n);
    return traits_type::to_int_type(*gptr());
  }
private:
  char* data_; size_t size_, pos_, start_, chunk_, throw_at_; u64 refills_ = 0;
};

// exact-size heap copy of a byte range (so that ASan poisons the first byte past it); optional misalignment by 1
struct ExactBuf {
  uint8_t* base; uint8_t* p; size_t n;
  ExactBuf(const uint8_t* src, size_t n_, bool misalign = false): n(n_) {
    base = static_cast<uint8_t*>(std::malloc(n_ + (misalign ? 1 : 0) + (n_ + (misalign ? 1 : 0) == 0 ? 1 : 0)));
    p = base + (misalign ? 1 : 0);
    if (n_) std::memcpy(p, src, n_);
  }
  ~ExactBuf() { std::free(base); }
  ExactBuf(const ExactBuf&) = delete; ExactBuf& operator=(const ExactBuf&) = delete;
};

// ================================================================== the library's randomness (hook H1)
struct SimRandom: datasketches::verif::random_source {
  Rng rng;
  enum BitMode { SEEDED = 0, ALL0 = 1, ALL1 = 2, ALT = 3 };
  int bit_mode = SEEDED;
  std::vector<uint8_t> bit_script; size_t bit_pos = 0;     // consumed before bit_mode applies
  std::vector<u64> u64_script; size_t u64_pos = 0;         // scripted prefix of 64-bit draws, then the seeded stream
  i64 extreme_at = -1; u64 extreme_value = 0;              // replace the n-th 64-bit draw (counted from arm) by a value, once
  u64 bits_drawn = 0, u64_drawn = 0; unsigned alt = 0;
  Ctx* log = nullptr;                                       // when set, every draw goes into the trace hash
  explicit SimRandom(u64 seed): rng(seed, "coin") {}
  void install() { datasketches::verif::current_random_source() = this; }
  static void uninstall() { datasketches::verif::current_random_source() = nullptr; }
  uint32_t next_bit() override {
    uint32_t b;
    if (bit_pos < bit_script.size()) b = bit_script[bit_pos++] & 1u;
    else switch (bit_mode) { case ALL0: b = 0; break; case ALL1: b = 1; break; case ALT: b = (alt++) & 1u; break; default: b = static_cast<uint32_t>(rng.next() >> 63); }
    bits_drawn++;
    if (log) log->t(static_cast<u64>(b));
    return b;
  }
  u64 next_u64() override {
    u64 v;
    if (u64_pos < u64_script.size()) v = u64_script[u64_pos++];
    else v = rng.next();
    if (extreme_at >= 0 && static_cast<i64>(u64_drawn) == extreme_at) { v = extreme_value; extreme_at = -1; }
    u64_drawn++;
    if (log) log->t(v);
    return v;
  }
};
struct RandomScope {   // installs a source for the lifetime of a run
  explicit RandomScope(SimRandom& r) { r.install(); }
  ~RandomScope() { SimRandom::uninstall(); }
};

// ================================================================== independent hashes (written from the published reference code)
inline u64 rotl64(u64 x, int r) { return (x << r) | (x >> (64 - r)); }
inline u64 fmix64(u64 k) { k ^= k >> 33; k *= 0xff51afd7ed558ccdULL; k ^= k >> 33; k *= 0xc4ceb9fe1a85ec53ULL; k ^= k >> 33; return k; }
inline u64 load64le(const uint8_t* p) { u64 v = 0; for (int i = 7; i >= 0; i--) v = (v << 8) | p[i]; return v; }
inline uint32_t load32le(const uint8_t* p) { return static_cast<uint32_t>(p[0]) | (static_cast<uint32_t>(p[1]) << 8) | (static_cast<uint32_t>(p[2]) << 16) | (static_cast<uint32_t>(p[3]) << 24); }

struct H128 { u64 h1, h2; };
inline H128 murmur3_x64_128(const void* key, size_t len, u64 seed) {
  const uint8_t* data = static_cast<const uint8_t*>(key);
  const size_t nblocks = len / 16;
  u64 h1 = seed, h2 = seed;
  const u64 c1 = 0x87c37b91114253d5ULL, c2 = 0x4cf5ad432745937fULL;
  for (size_t i = 0; i < nblocks; i++) {
    u64 k1 = load64le(data + 16 * i), k2 = load64le(data + 16 * i + 8);
    k1 *= c1; k1 = rotl64(k1, 31); k1 *= c2; h1 ^= k1;
    h1 = rotl64(h1, 27); h1 += h2; h1 = h1 * 5 + 0x52dce729;
    k2 *= c2; k2 = rotl64(k2, 33); k2 *= c1; h2 ^= k2;
    h2 = rotl64(h2, 31); h2 += h1; h2 = h2 * 5 + 0x38495ab5;
  }
  const uint8_t* tail = data + nblocks * 16;
  u64 k1 = 0, k2 = 0;
  const size_t rem = len & 15;
  for (size_t i = rem; i > 8; i--) k2 ^= static_cast<u64>(tail[i - 1]) << ((i - 9) * 8);
  if (rem > 8) { k2 *= c2; k2 = rotl64(k2, 33); k2 *= c1; h2 ^= k2; }
  for (size_t i = std::min<size_t>(rem, 8); i > 0; i--) k1 ^= static_cast<u64>(tail[i - 1]) << ((i - 1) * 8);
  if (rem > 0) { k1 *= c1; k1 = rotl64(k1, 31); k1 *= c2; h1 ^= k1; }
  h1 ^= len; h2 ^= len;
  h1 += h2; h2 += h1;
  h1 = fmix64(h1); h2 = fmix64(h2);
  h1 += h2; h2 += h1;
  return H128{h1, h2};
}

inline u64 xxh64(const void* input, size_t len, u64 seed) {
  const u64 P1 = 11400714785074694791ULL, P2 = 14029467366897019727ULL, P3 = 1609587929392839161ULL, P4 = 9650029242287828579ULL, P5 = 2870177450012600261ULL;
  const uint8_t* p = static_cast<const uint8_t*>(input); const uint8_t* const end = p + len;
  u64 h;
  auto round = [&](u64 acc, u64 in) { acc += in * P2; acc = rotl64(acc, 31); acc *= P1; return acc; };
  auto merge = [&](u64 acc, u64 val) { val = round(0, val); acc ^= val; acc = acc * P1 + P4; return acc; };
  if (len >= 32) {
    const uint8_t* const limit = end - 32;
    u64 v1 = seed + P1 + P2, v2 = seed + P2, v3 = seed, v4 = seed - P1;
    do { v1 = round(v1, load64le(p)); p += 8; v2 = round(v2, load64le(p)); p += 8; v3 = round(v3, load64le(p)); p += 8; v4 = round(v4, load64le(p)); p += 8; } while (p <= limit);
    h = rotl64(v1, 1) + rotl64(v2, 7) + rotl64(v3, 12) + rotl64(v4, 18);
    h = merge(h, v1); h = merge(h, v2); h = merge(h, v3); h = merge(h, v4);
  } else h = seed + P5;
  h += static_cast<u64>(len);
  while (p + 8 <= end) { u64 k1 = round(0, load64le(p)); h ^= k1; h = rotl64(h, 27) * P1 + P4; p += 8; }
  if (p + 4 <= end) { h ^= static_cast<u64>(load32le(p)) * P1; h = rotl64(h, 23) * P2 + P3; p += 4; }
  while (p < end) { h ^= (*p) * P5; h = rotl64(h, 11) * P1; p++; }
  h ^= h >> 33; h *= P2; h ^= h >> 29; h *= P3; h ^= h >> 32;
  return h;
}

// published test vectors; a harness whose own hashes are wrong must not judge the library
inline void selftest_hashes() {
  const char* fox = "The quick brown fox jumps over the lazy dog";
  H128 h = murmur3_x64_128(fox, std::strlen(fox), 0);
  bool ok = h.h1 == 0xe34bbc7bbc071b6cULL && h.h2 == 0x7a433ca9c49a9347ULL;
  H128 e = murmur3_x64_128("", 0, 0); ok = ok && e.h1 == 0 && e.h2 == 0;
  ok = ok && xxh64("", 0, 0) == 0xEF46DB3751D8E999ULL && xxh64("a", 1, 0) == 0xD24EC4F1A98C6E5BULL && xxh64("abc", 3, 0) == 0x44BC2CF5AD770999ULL;
  const char* l = "Nobody inspects the spammish repetition";
  ok = ok && xxh64(l, std::strlen(l), 0) == 0xFBCEA83C8A378BF1ULL;
  if (!ok) { fprintf(stderr, "dsim: independent hash self-test failed\n"); std::exit(2); }
}

inline std::string hexd(double d) { char b[40]; snprintf(b, sizeof(b), "%a", d); return b; }

} // namespace sim
#endif
