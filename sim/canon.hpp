// The documented input canonicalisation shared by Theta, Tuple, HLL, CPC (and Bloom): every update overload is driven with a value
// derived from (v, type) and the canonical byte string the hash must be computed over is returned - written from the documentation
// (sign-extension of narrower integers to int64, float -> double, -0.0 -> 0.0, every NaN -> 0x7ff8000000000000, empty string ignored).
#ifndef DSIM_CANON_HPP
#define DSIM_CANON_HPP
#include "seams.hpp"
#include <cmath>
#include <limits>

namespace sim {

enum ValType { T_I64, T_U64, T_I32, T_U32, T_I16, T_U16, T_I8, T_U8, T_DOUBLE, T_FLOAT, T_STRING, T_BYTES, T_NEGZERO, T_NAN, T_EMPTYSTR, T_INF, T_NINF, T_FNAN, N_TYPES };

struct Canon { bool ignored = false; uint8_t data[48]; size_t len = 0; };

inline Canon canon_i64(i64 v) { Canon c; c.len = 8; for (int i = 0; i < 8; i++) c.data[i] = static_cast<uint8_t>(static_cast<u64>(v) >> (8 * i)); return c; }
inline Canon canon_double(double d) {
  u64 bits;
  if (d == 0.0) bits = 0; else if (std::isnan(d)) bits = 0x7ff8000000000000ULL; else std::memcpy(&bits, &d, 8);
  return canon_i64(static_cast<i64>(bits));
}
inline Canon canon_bytes(const void* p, size_t n) { Canon c; c.len = n; std::memcpy(c.data, p, n); return c; }

// calls s.update(<value of the requested type>) and returns what the documentation says must be hashed
template<typename S> Canon typed_update(S& s, i64 v, int type) {
  switch (type) {
    case T_I64: s.update(static_cast<int64_t>(v - 50)); return canon_i64(v - 50);
    case T_U64: s.update(static_cast<uint64_t>(v)); return canon_i64(v);
    case T_I32: s.update(static_cast<int32_t>(v - 50)); return canon_i64(v - 50);
    case T_U32: { uint32_t x = static_cast<uint32_t>(0xfffffff0u + static_cast<uint32_t>(v)); s.update(x); return canon_i64(static_cast<i64>(static_cast<int32_t>(x))); }
    case T_I16: s.update(static_cast<int16_t>(v - 50)); return canon_i64(static_cast<int16_t>(v - 50));
    case T_U16: { uint16_t x = static_cast<uint16_t>(0xfff0u + static_cast<unsigned>(v)); s.update(x); return canon_i64(static_cast<i64>(static_cast<int16_t>(x))); }
    case T_I8: s.update(static_cast<int8_t>(v - 50)); return canon_i64(static_cast<int8_t>(v - 50));
    case T_U8: { uint8_t x = static_cast<uint8_t>(0xf0u + static_cast<unsigned>(v)); s.update(x); return canon_i64(static_cast<i64>(static_cast<int8_t>(x))); }
    case T_DOUBLE: { double d = static_cast<double>(v) / 4.0; s.update(d); return canon_double(d); }
    case T_FLOAT: { float f = static_cast<float>(v) / 3.0f; s.update(f); return canon_double(static_cast<double>(f)); }
    case T_STRING: { std::string str = "k" + std::to_string(v); if (v % 3 == 0) str += std::string(static_cast<size_t>(v % 40), 'x'); s.update(str); return canon_bytes(str.data(), str.size()); }   // lengths 2..42: across the 16- and 32-byte hash blocks
    case T_BYTES: { uint8_t b[48]; size_t n = 1 + static_cast<size_t>(v % 47); for (size_t i = 0; i < n; i++) b[i] = static_cast<uint8_t>(v * 7 + static_cast<i64>(i)); s.update(static_cast<const void*>(b), n); return canon_bytes(b, n); }
    case T_NEGZERO: s.update(-0.0); return canon_double(0.0);
    case T_NAN: s.update(std::numeric_limits<double>::quiet_NaN() * (v % 2 ? 1 : -1)); return canon_double(std::numeric_limits<double>::quiet_NaN());
    case T_EMPTYSTR: { s.update(std::string()); Canon c; c.ignored = true; return c; }
    case T_INF: s.update(std::numeric_limits<double>::infinity()); return canon_double(std::numeric_limits<double>::infinity());
    case T_NINF: s.update(-std::numeric_limits<float>::infinity()); return canon_double(-std::numeric_limits<double>::infinity());
    default: s.update(std::numeric_limits<float>::quiet_NaN()); return canon_double(std::numeric_limits<double>::quiet_NaN());
  }
}

inline int clz64(u64 x) { if (x == 0) return 64; int n = 0; while (!(x >> 63)) { x <<= 1; n++; } return n; }

} // namespace sim
#endif
