// adapters: frequent items, count-min, var_opt sketch + union, ebpps, bloom filter, density
#ifndef DSIM_FAM_MISC_HPP
#define DSIM_FAM_MISC_HPP
#include "fam_common.hpp"
#include "fam_quant.hpp"   // NameOf
#include <frequent_items_sketch.hpp>
#include <count_min.hpp>
#include <var_opt_sketch.hpp>
#include <var_opt_union.hpp>
#include <ebpps_sketch.hpp>
#include <bloom_filter.hpp>
#include <density_sketch.hpp>

namespace fam {
namespace ds = datasketches;

// observation must not consume the run's random stream: queries that draw get a private, fixed source
struct ObsRandom {
  datasketches::verif::random_source* saved; sim::SimRandom local;
  ObsRandom(): saved(datasketches::verif::current_random_source()), local(0x0b5e7) { local.install(); }
  ~ObsRandom() { datasketches::verif::current_random_source() = saved; }
};

// ------------------------------------------------------------------ frequent items
template<typename T> struct FiSk: Sk {
  typedef sim::talloc<T> A;
  typedef ds::frequent_items_sketch<T, uint64_t, std::hash<T>, std::equal_to<T>, A> S;
  typedef typename Item<T>::serde SD;
  std::unique_ptr<S> s;
  explicit FiSk(S&& s_): s(new S(std::move(s_))) {}
  const char* fam() const override { static std::string n = std::string("fi<") + NameOf<T>::s() + ">"; return n.c_str(); }
  Sk* clone() const override { return new FiSk(S(*s)); }
  Sk* move_out() override { return new FiSk(S(std::move(*s))); }
  void copy_assign(const Sk& o) override { *s = *static_cast<const FiSk&>(o).s; }
  void move_assign(Sk& o) override { *s = std::move(*static_cast<FiSk&>(o).s); }
  void feed(i64 start, i64 count, i64 pattern) override {
    for (i64 j = 0; j < count; j++) { i64 v = feed_value(start, j, count, pattern); s->update(Item<T>::make(v), static_cast<uint64_t>(feed_weight(v, (pattern & ~24) | ((pattern >> 3) & 1) * 8))); }
  }
  void merge(const Sk& o) override { s->merge(*static_cast<const FiSk&>(o).s); }
  void merge_move(Sk& o) override { s->merge(std::move(*static_cast<FiSk&>(o).s)); }
  std::string obs(bool) const override {
    std::string o = "active=" + std::to_string(s->get_num_active_items()) + " total=" + std::to_string(s->get_total_weight()) + " maxerr=" + std::to_string(s->get_maximum_error()) +
      " eps=" + d2s(s->get_epsilon()) + " empty=" + std::to_string(s->is_empty());
    auto rows = s->get_frequent_items(ds::NO_FALSE_NEGATIVES);
    std::vector<std::string> e;
    for (auto& r : rows) e.push_back(Item<T>::str(r.get_item()) + ":" + std::to_string(r.get_estimate()) + ":" + std::to_string(r.get_lower_bound()) + ":" + std::to_string(r.get_upper_bound()));
    std::sort(e.begin(), e.end());
    o += " rows=[";
    for (auto& x : e) o += x + ",";
    o += "]";
    for (i64 v = 0; v < 6; v++) o += " e" + std::to_string(v) + "=" + std::to_string(s->get_estimate(Item<T>::make(v)));
    return o;
  }
  Bytes ser(int, unsigned h) const override { return to_bytes(s->serialize(h, SD())); }
  void ser_os(int, std::ostream& os) const override { s->serialize(os, SD()); }
  Sk* de(int, const uint8_t* p, size_t n) const override { return new FiSk(S::deserialize(p, n, SD(), std::equal_to<T>(), A(ARENA))); }
  Sk* de_is(int, std::istream& is) const override { return new FiSk(S::deserialize(is, SD(), std::equal_to<T>(), A(ARENA))); }
  size_t advertised_size(int) const override { return s->get_serialized_size_bytes(SD()); }
  // layout (frequent_items_sketch_impl.hpp): 4 preamble longs (num_items u32 at byte 8), num_items weights (8 bytes each) from byte 32,
  // then the items in the same, unspecified, hash-table order; int64 items are 8 bytes, strings are u32 length + bytes
  static size_t item_len(const uint8_t* p, size_t avail) { if (std::is_same<T, std::string>::value) { if (avail < 4) return 0; size_t l = 4 + sim::load32le(p); return l <= avail ? l : 0; } return avail >= 8 ? 8 : 0; }
  Bytes canonical(int, const Bytes& img) const override {
    if (img.size() < 32 || img[0] != 4) return img;
    const size_t n = sim::load32le(img.data() + 8);
    if (32 + 8 * n > img.size()) return img;
    std::vector<std::pair<Bytes, Bytes>> rows; size_t off = 32 + 8 * n;
    for (size_t i = 0; i < n; i++) {
      size_t l = item_len(img.data() + off, img.size() - off); if (l == 0) return img;
      rows.push_back(std::make_pair(Bytes(img.begin() + static_cast<std::ptrdiff_t>(off), img.begin() + static_cast<std::ptrdiff_t>(off + l)), Bytes(img.begin() + static_cast<std::ptrdiff_t>(32 + 8 * i), img.begin() + static_cast<std::ptrdiff_t>(40 + 8 * i))));
      off += l;
    }
    if (off != img.size()) return img;
    std::sort(rows.begin(), rows.end());
    Bytes out(img.begin(), img.begin() + 32);
    for (auto& r : rows) out.insert(out.end(), r.second.begin(), r.second.end());
    for (auto& r : rows) out.insert(out.end(), r.first.begin(), r.first.end());
    return out;
  }
};
template<typename T> struct FiFamily: Family {
  const char* name() const override { static std::string n = std::string("fi<") + NameOf<T>::s() + ">"; return n.c_str(); }
  int cfg_len() const override { return 2; }
  void gen_cfg(sim::Rng& r, std::vector<i64>& cfg, int) const override { i64 mx = r.range(3, 8); cfg.push_back(mx); cfg.push_back(r.range(3, mx)); }
  Sk* make(const i64* cfg) const override { return new FiSk<T>(typename FiSk<T>::S(static_cast<uint8_t>(cfg[0]), static_cast<uint8_t>(cfg[1]), std::equal_to<T>(), typename FiSk<T>::A(ARENA))); }
};

// ------------------------------------------------------------------ count-min
struct CmSk: Sk {
  typedef sim::talloc<uint64_t> A;
  typedef ds::count_min_sketch<uint64_t, A> S;
  std::unique_ptr<S> s;
  explicit CmSk(S&& s_): s(new S(std::move(s_))) {}
  const char* fam() const override { return "countmin"; }
  Sk* clone() const override { return new CmSk(S(*s)); }
  Sk* move_out() override { return new CmSk(S(std::move(*s))); }
  void copy_assign(const Sk& o) override { *s = *static_cast<const CmSk&>(o).s; }
  void move_assign(Sk& o) override { *s = std::move(*static_cast<CmSk&>(o).s); }
  void feed(i64 start, i64 count, i64 pattern) override {
    for (i64 j = 0; j < count; j++) { i64 v = feed_value(start, j, count, pattern); uint64_t w = static_cast<uint64_t>(feed_weight(v, (pattern & ~24) | ((pattern >> 3) & 1) * 8));
      if ((pattern >> 5) & 1) s->update(Item<std::string>::make(v), w); else s->update(static_cast<int64_t>(v), w); }
  }
  bool compatible(const S& o) const { return o.get_num_hashes() == s->get_num_hashes() && o.get_num_buckets() == s->get_num_buckets() && o.get_seed() == s->get_seed(); }
  void merge(const Sk& o) override { const S& x = *static_cast<const CmSk&>(o).s; if (&x != s.get() && compatible(x)) s->merge(x); }
  void merge_move(Sk& o) override { merge(o); }
  std::string obs(bool) const override {
    std::string o = "h=" + std::to_string(s->get_num_hashes()) + " b=" + std::to_string(s->get_num_buckets()) + " seed=" + std::to_string(s->get_seed()) + " total=" + std::to_string(s->get_total_weight()) +
      " empty=" + std::to_string(s->is_empty()) + " relerr=" + d2s(s->get_relative_error());
    u64 h = 0xcbf29ce484222325ULL; size_t cells = 0;
    for (auto it = s->begin(); it != s->end(); ++it) { u64 v = *it; h = sim::fnv1a(&v, 8, h); cells++; }
    o += " cells=" + std::to_string(cells) + ":" + std::to_string(h);
    for (i64 v = 0; v < 6; v++) o += " e=" + std::to_string(s->get_estimate(static_cast<int64_t>(v))) + "/" + std::to_string(s->get_lower_bound(static_cast<int64_t>(v))) + "/" + std::to_string(s->get_upper_bound(static_cast<int64_t>(v)));
    return o;
  }
  Bytes ser(int, unsigned h) const override { return to_bytes(s->serialize(h)); }
  void ser_os(int, std::ostream& os) const override { s->serialize(os); }
  Sk* de(int, const uint8_t* p, size_t n) const override { return new CmSk(S::deserialize(p, n, s->get_seed(), A(ARENA))); }
  Sk* de_is(int, std::istream& is) const override { return new CmSk(S::deserialize(is, s->get_seed(), A(ARENA))); }
  size_t advertised_size(int) const override { return s->get_serialized_size_bytes(); }
};
struct CmFamily: Family {
  const char* name() const override { return "countmin"; }
  int cfg_len() const override { return 3; }
  void gen_cfg(sim::Rng& r, std::vector<i64>& cfg, int) const override { static const int hs[] = { 1, 2, 3, 5, 8 }; static const int bs[] = { 3, 4, 7, 16, 64, 257 }; cfg.push_back(r.pick(hs)); cfg.push_back(r.pick(bs)); cfg.push_back(r.below(3)); }
  Sk* make(const i64* cfg) const override { static const u64 seeds[3] = { ds::DEFAULT_SEED, 12345, 0x9e3779b97f4a7c15ULL }; return new CmSk(CmSk::S(static_cast<uint8_t>(cfg[0]), static_cast<uint32_t>(cfg[1]), seeds[cfg[2] % 3], CmSk::A(ARENA))); }
};

// ------------------------------------------------------------------ var_opt sketch
template<typename T, typename S> std::string obs_varopt(const S& s, bool det_only) {
  std::string o = "k=" + std::to_string(s.get_k()) + " n=" + std::to_string(s.get_n()) + " samples=" + std::to_string(s.get_num_samples()) + " empty=" + std::to_string(s.is_empty());
  if (det_only) return o;
  std::vector<std::string> e; double tot = 0;
  for (auto it = s.begin(); it != s.end(); ++it) { e.push_back(Item<T>::str((*it).first) + "*" + d2s((*it).second)); tot += (*it).second; }
  std::sort(e.begin(), e.end());
  o += " items=[";
  for (auto& x : e) o += x + ",";
  o += "] sum=" + d2s(tot);
  auto ss = s.estimate_subset_sum([](const T&) { return true; });
  o += " ss=" + d2s(ss.lower_bound) + "/" + d2s(ss.estimate) + "/" + d2s(ss.upper_bound) + "/" + d2s(ss.total_sketch_weight);
  return o;
}
template<typename T> struct VoSk: Sk {
  typedef sim::talloc<T> A;
  typedef ds::var_opt_sketch<T, A> S;
  typedef typename Item<T>::serde SD;
  std::unique_ptr<S> s;
  explicit VoSk(S&& s_): s(new S(std::move(s_))) {}
  const char* fam() const override { static std::string n = std::string("varopt<") + NameOf<T>::s() + ">"; return n.c_str(); }
  Sk* clone() const override { return new VoSk(S(*s)); }
  Sk* move_out() override { return new VoSk(S(std::move(*s))); }
  void copy_assign(const Sk& o) override { *s = *static_cast<const VoSk&>(o).s; }
  void move_assign(Sk& o) override { *s = std::move(*static_cast<VoSk&>(o).s); }
  void feed(i64 start, i64 count, i64 pattern) override { for (i64 j = 0; j < count; j++) { i64 v = feed_value(start, j, count, pattern); s->update(Item<T>::make(v), feed_weight(v, pattern)); } }
  template<typename O> void unite(O&& other, bool mv) {
    ds::var_opt_union<T, A> un(s->get_k(), A(ARENA));
    un.update(*s);
    if (mv) un.update(std::move(other)); else un.update(other);
    S res = un.get_result(); *s = std::move(res);
  }
  void merge(const Sk& o) override { unite(*static_cast<const VoSk&>(o).s, false); }
  void merge_move(Sk& o) override { unite(*static_cast<VoSk&>(o).s, true); }
  void reset() override { s->reset(); }
  std::string obs(bool det_only) const override { return obs_varopt<T>(*s, det_only); }
  bool deterministic() const override { return false; }
  Bytes ser(int, unsigned h) const override { return to_bytes(s->serialize(h, SD())); }
  void ser_os(int, std::ostream& os) const override { s->serialize(os, SD()); }
  Sk* de(int, const uint8_t* p, size_t n) const override { return new VoSk(S::deserialize(p, n, SD(), A(ARENA))); }
  Sk* de_is(int, std::istream& is) const override { return new VoSk(S::deserialize(is, SD(), A(ARENA))); }
  size_t advertised_size(int) const override { return s->get_serialized_size_bytes(SD()); }
};
template<typename T> struct VoFamily: Family {
  const char* name() const override { static std::string n = std::string("varopt<") + NameOf<T>::s() + ">"; return n.c_str(); }
  int cfg_len() const override { return 2; }
  void gen_cfg(sim::Rng& r, std::vector<i64>& cfg, int) const override { static const int ks[] = { 1, 2, 5, 8, 16, 32 }; cfg.push_back(r.pick(ks)); cfg.push_back(r.below(4)); }
  Sk* make(const i64* cfg) const override { return new VoSk<T>(typename VoSk<T>::S(static_cast<uint32_t>(cfg[0]), static_cast<ds::resize_factor>(cfg[1]), typename VoSk<T>::A(ARENA))); }
};

// ------------------------------------------------------------------ var_opt union (serialisable operator state)
template<typename T> struct VouSkT: Sk {
  typedef sim::talloc<T> A;
  typedef ds::var_opt_union<T, A> S;
  typedef ds::var_opt_sketch<T, A> K;
  typedef typename Item<T>::serde SD;
  uint32_t k; std::unique_ptr<S> s;
  VouSkT(S&& s_, uint32_t k_): k(k_), s(new S(std::move(s_))) {}
  const char* fam() const override { static std::string n = std::is_same<T, int64_t>::value ? std::string("varopt_union") : std::string("varopt_union<") + NameOf<T>::s() + ">"; return n.c_str(); }
  Sk* clone() const override { return new VouSkT(S(*s), k); }
  Sk* move_out() override { return new VouSkT(S(std::move(*s)), k); }
#ifdef DSIM_BASELINE   // the pinned baseline's var_opt_union copy assignment does not compile (repaired in /repo)
  void copy_assign(const Sk& o) override { s.reset(new S(*static_cast<const VouSkT&>(o).s)); k = static_cast<const VouSkT&>(o).k; }
#else
  void copy_assign(const Sk& o) override { *s = *static_cast<const VouSkT&>(o).s; k = static_cast<const VouSkT&>(o).k; }
#endif
  void move_assign(Sk& o) override { *s = std::move(*static_cast<VouSkT&>(o).s); k = static_cast<VouSkT&>(o).k; }
  void feed(i64 start, i64 count, i64 pattern) override {
    K sk(std::max<uint32_t>(1, static_cast<uint32_t>(k / (1 + (static_cast<u64>(start) % (std::is_same<T, int64_t>::value ? 3 : 8))))), ds::resize_factor::X2, A(ARENA));
    for (i64 j = 0; j < count; j++) { i64 v = feed_value(start, j, count, pattern); sk.update(Item<T>::make(v), feed_weight(v, pattern)); }
    if (start & 1) s->update(std::move(sk)); else s->update(sk);
  }
  void merge(const Sk& o) override { K r = static_cast<const VouSkT&>(o).s->get_result(); s->update(r); }
  void merge_move(Sk& o) override { K r = static_cast<VouSkT&>(o).s->get_result(); s->update(std::move(r)); }
  void reset() override { s->reset(); }
  std::string obs(bool det_only) const override { ObsRandom guard; K r = s->get_result(); return obs_varopt<T>(r, det_only); }   // get_result() draws
  bool deterministic() const override { return false; }
  Bytes ser(int, unsigned h) const override { return to_bytes(s->serialize(h, SD())); }
  void ser_os(int, std::ostream& os) const override { s->serialize(os, SD()); }
  Sk* de(int, const uint8_t* p, size_t n) const override { return new VouSkT(S::deserialize(p, n, SD(), A(ARENA)), k); }
  Sk* de_is(int, std::istream& is) const override { return new VouSkT(S::deserialize(is, SD(), A(ARENA)), k); }
  size_t advertised_size(int) const override { return s->get_serialized_size_bytes(SD()); }
};
typedef VouSkT<int64_t> VouSk;
template<typename T> struct VouFamilyT: Family {
  const char* name() const override { static std::string n = std::is_same<T, int64_t>::value ? std::string("varopt_union") : std::string("varopt_union<") + NameOf<T>::s() + ">"; return n.c_str(); }
  int cfg_len() const override { return 1; }
  void gen_cfg(sim::Rng& r, std::vector<i64>& cfg, int) const override { static const int ks[] = { 2, 5, 8, 16, 32, 64 }; cfg.push_back(r.pick(ks)); }
  Sk* make(const i64* cfg) const override { return new VouSkT<T>(typename VouSkT<T>::S(static_cast<uint32_t>(cfg[0]), typename VouSkT<T>::A(ARENA)), static_cast<uint32_t>(cfg[0])); }
};
typedef VouFamilyT<int64_t> VouFamily;

// ------------------------------------------------------------------ ebpps
template<typename T> struct EbSk: Sk {
  typedef sim::talloc<T> A;
  typedef ds::ebpps_sketch<T, A> S;
  typedef typename Item<T>::serde SD;
  std::unique_ptr<S> s;
  explicit EbSk(S&& s_): s(new S(std::move(s_))) {}
  bool state_consistent() const override { if (s->is_empty()) return true; size_t cnt = 0; for (auto it = s->begin(); it != s->end(); ++it) cnt++; const double c = s->get_c(); return static_cast<double>(cnt) == std::floor(c) || static_cast<double>(cnt) == std::ceil(c); }
  const char* fam() const override { static std::string n = std::string("ebpps<") + NameOf<T>::s() + ">"; return n.c_str(); }
  Sk* clone() const override { return new EbSk(S(*s)); }
  Sk* move_out() override { return new EbSk(S(std::move(*s))); }
  void copy_assign(const Sk& o) override { *s = *static_cast<const EbSk&>(o).s; }
  void move_assign(Sk& o) override { *s = std::move(*static_cast<EbSk&>(o).s); }
  void feed(i64 start, i64 count, i64 pattern) override { for (i64 j = 0; j < count; j++) { i64 v = feed_value(start, j, count, pattern); s->update(Item<T>::make(v), feed_weight(v, pattern)); } }
#ifdef DSIM_BASELINE   // the pinned baseline's merge(const&) does not compile with a user allocator (repaired in /repo)
  void merge(const Sk& o) override { S tmp(*static_cast<const EbSk&>(o).s); s->merge(std::move(tmp)); }
#else
  void merge(const Sk& o) override { s->merge(*static_cast<const EbSk&>(o).s); }
#endif
  void merge_move(Sk& o) override { s->merge(std::move(*static_cast<EbSk&>(o).s)); }
  void reset() override { s->reset(); }
  std::string obs(bool det_only) const override {
    std::string o = "k=" + std::to_string(s->get_k()) + " n=" + std::to_string(s->get_n()) + " cum=" + d2s(s->get_cumulative_weight()) + " c=" + d2s(s->get_c()) + " empty=" + std::to_string(s->is_empty());
    if (det_only) return o;
    ObsRandom guard;
    auto res = s->get_result();
    std::vector<std::string> e; for (auto& x : res) e.push_back(Item<T>::str(x));
    std::sort(e.begin(), e.end());
    o += " result=[";
    for (auto& x : e) o += x + ",";
    return o + "]";
  }
  bool deterministic() const override { return false; }
  Bytes ser(int, unsigned h) const override { return to_bytes(s->serialize(h, SD())); }
  void ser_os(int, std::ostream& os) const override { s->serialize(os, SD()); }
  Sk* de(int, const uint8_t* p, size_t n) const override { return new EbSk(S::deserialize(p, n, SD(), A(ARENA))); }
  Sk* de_is(int, std::istream& is) const override { return new EbSk(S::deserialize(is, SD(), A(ARENA))); }
  size_t advertised_size(int) const override { return s->get_serialized_size_bytes(SD()); }
};
template<typename T> struct EbFamily: Family {
  const char* name() const override { static std::string n = std::string("ebpps<") + NameOf<T>::s() + ">"; return n.c_str(); }
  int cfg_len() const override { return 1; }
  void gen_cfg(sim::Rng& r, std::vector<i64>& cfg, int) const override { static const int ks[] = { 1, 2, 4, 8, 16, 32 }; cfg.push_back(r.pick(ks)); }
  Sk* make(const i64* cfg) const override { return new EbSk<T>(typename EbSk<T>::S(static_cast<uint32_t>(cfg[0]), typename EbSk<T>::A(ARENA))); }
};

// ------------------------------------------------------------------ bloom filter
struct BfSk: Sk {
  typedef sim::talloc<uint8_t> A;
  typedef ds::bloom_filter_alloc<A> S;
  std::unique_ptr<sim::ExactBuf> mem;   // caller memory when wrapped (declared first: outlives the filter)
  std::unique_ptr<S> s;
  explicit BfSk(S&& s_): s(new S(std::move(s_))) {}
  BfSk(std::unique_ptr<sim::ExactBuf>&& m, S&& s_): mem(std::move(m)), s(new S(std::move(s_))) {}
  ~BfSk() override { s.reset(); mem.reset(); }
  const char* fam() const override { return "bloom"; }
  Sk* clone() const override {   // the library's copy of a wrapping filter is another view of the same caller memory: give the clone its own memory block
    if (!mem || !s->is_wrapped()) return new BfSk(S(*s));   // wrapping an empty image yields an owning filter
    std::unique_ptr<sim::ExactBuf> m(new sim::ExactBuf(mem->p, mem->n));
    if (s->is_read_only()) { S f(S::wrap(m->p, m->n, A(ARENA))); return new BfSk(std::move(m), std::move(f)); }
    S f(S::writable_wrap(m->p, m->n, A(ARENA))); return new BfSk(std::move(m), std::move(f));
  }
  Sk* move_out() override { std::unique_ptr<BfSk> n(new BfSk(S(std::move(*s)))); n->mem = std::move(mem); return n.release(); }
  void copy_assign(const Sk& o) override { if (&o == this) { *s = *s; return; } std::unique_ptr<BfSk> c(static_cast<BfSk*>(o.clone())); s = std::move(c->s); mem = std::move(c->mem); }
  void move_assign(Sk& o) override { BfSk& b = static_cast<BfSk&>(o); if (&o == this) { *s = std::move(*b.s); return; } *s = std::move(*b.s); mem = std::move(b.mem); }
  void feed(i64 start, i64 count, i64 pattern) override {
    if (s->is_read_only()) return;
    for (i64 j = 0; j < count; j++) { i64 v = feed_value(start, j, count, pattern); if ((pattern >> 5) & 1) s->update(Item<std::string>::make(v)); else s->update(static_cast<int64_t>(v)); }
  }
  void merge(const Sk& o) override { const S& x = *static_cast<const BfSk&>(o).s; if (!s->is_read_only() && s->is_compatible(x)) s->union_with(x); }
  void merge_move(Sk& o) override { merge(o); }
  void reset() override { if (!s->is_read_only()) s->reset(); }
  std::string obs(bool) const override {
    S c(*s);
    std::string o = "cap=" + std::to_string(s->get_capacity()) + " h=" + std::to_string(s->get_num_hashes()) + " seed=" + std::to_string(s->get_seed()) + " empty=" + std::to_string(s->is_empty()) +
      " used=" + std::to_string(c.get_bits_used()) + " q=";
    for (i64 v = 0; v < 96; v++) o += s->query(static_cast<int64_t>(v * 13 % 1000)) ? '1' : '0';
    return o;
  }
  int n_variants() const override { return 3; }
  bool variant_ok(int v) const override { return v != 2 || !s->is_empty(); }   // the library documents that an empty filter cannot be wrapped for writing
  bool has_stream_reader(int v) const override { return v == 0; }
  Bytes ser(int, unsigned h) const override { return to_bytes(s->serialize(h)); }
  void ser_os(int, std::ostream& os) const override { s->serialize(os); }
  Sk* de(int v, const uint8_t* p, size_t n) const override {
    if (v == 0) return new BfSk(S::deserialize(p, n, A(ARENA)));
    std::unique_ptr<sim::ExactBuf> m(new sim::ExactBuf(p, n));
    if (v == 1) { S f(S::wrap(m->p, m->n, A(ARENA))); return new BfSk(std::move(m), std::move(f)); }
    S f(S::writable_wrap(m->p, m->n, A(ARENA))); return new BfSk(std::move(m), std::move(f));
  }
  Sk* de_is(int, std::istream& is) const override { return new BfSk(S::deserialize(is, A(ARENA))); }
  size_t advertised_size(int) const override { return s->get_serialized_size_bytes(); }
  bool can_continue() const override { return !s->is_read_only(); }
};
struct BfFamily: Family {
  const char* name() const override { return "bloom"; }
  int cfg_len() const override { return 3; }
  int n_variants() const override { return 3; }
  void gen_cfg(sim::Rng& r, std::vector<i64>& cfg, int) const override { static const int bits[] = { 1, 63, 64, 65, 100, 1000, 8192 }; cfg.push_back(r.pick(bits)); cfg.push_back(r.range(1, 7)); cfg.push_back(r.below(3)); }
  Sk* make(const i64* cfg) const override { static const u64 seeds[3] = { ds::DEFAULT_SEED, 12345, 0x9e3779b97f4a7c15ULL }; return new BfSk(BfSk::S::builder::create_by_size(static_cast<uint64_t>(cfg[0]), static_cast<uint16_t>(cfg[1]), seeds[cfg[2] % 3], BfSk::A(ARENA))); }
};

// ------------------------------------------------------------------ density
// the shipped gaussian_kernel only accepts std::vector<T> with std::allocator; this one is the same function for any vector type
template<typename T> struct sim_gaussian_kernel {
  template<typename V1, typename V2> T operator()(const V1& a, const V2& b) const {
    double acc = 0; for (size_t i = 0; i < a.size(); i++) { T d = a[i] - b[i]; acc += d * d; } return static_cast<T>(std::exp(-acc));
  }
};
template<typename T> struct DnSk: Sk {
  typedef sim::talloc<T> A;
  typedef ds::density_sketch<T, sim_gaussian_kernel<T>, A> S;
  std::unique_ptr<S> s;
  explicit DnSk(S&& s_): s(new S(std::move(s_))) {}
  const char* fam() const override { static std::string n = std::string("density<") + NameOf<T>::s() + ">"; return n.c_str(); }
  Sk* clone() const override { return new DnSk(S(*s)); }
  Sk* move_out() override { return new DnSk(S(std::move(*s))); }
  void copy_assign(const Sk& o) override { *s = *static_cast<const DnSk&>(o).s; }
  void move_assign(Sk& o) override { *s = std::move(*static_cast<DnSk&>(o).s); }
  std::vector<T> point(i64 v) const { if (s->get_dim() > 4096) throw std::invalid_argument("harness: dimension of a corrupted image too large to build points for");   // an accepted corrupted image may legitimately describe dim = 2^32-1
    std::vector<T> p(s->get_dim()); for (size_t i = 0; i < p.size(); i++) p[i] = static_cast<T>((v + static_cast<i64>(i) * 3) % 64) / static_cast<T>(16); return p; }
  void feed(i64 start, i64 count, i64 pattern) override {
    for (i64 j = 0; j < count; j++) { auto p = point(feed_value(start, j, count, pattern)); typename S::Vector pv(p.begin(), p.end(), A(ARENA)); s->update(std::move(pv)); }
  }
  void merge(const Sk& o) override { const S& x = *static_cast<const DnSk&>(o).s; if (x.get_dim() == s->get_dim()) s->merge(x); }
  void merge_move(Sk& o) override { S& x = *static_cast<DnSk&>(o).s; if (x.get_dim() == s->get_dim()) s->merge(std::move(x)); }
  std::string obs(bool det_only) const override {
    std::string o = "k=" + std::to_string(s->get_k()) + " dim=" + std::to_string(s->get_dim()) + " n=" + std::to_string(s->get_n()) + " retained=" + std::to_string(s->get_num_retained()) +
      " est=" + std::to_string(s->is_estimation_mode()) + " empty=" + std::to_string(s->is_empty());
    if (det_only) return o;
    std::vector<std::string> e;
    for (auto it = s->begin(); it != s->end(); ++it) { std::string p; for (T x : (*it).first) p += d2s(x) + "/"; e.push_back(p + "*" + std::to_string((*it).second)); }
    std::sort(e.begin(), e.end());
    o += " pts=[";
    for (auto& x : e) o += x + ",";
    o += "]";
    if (!s->is_empty()) o += " e=" + d2s(s->get_estimate(point(5))) + "," + d2s(s->get_estimate(point(40)));
    return o;
  }
  bool deterministic() const override { return false; }
  Bytes ser(int, unsigned h) const override { return to_bytes(s->serialize(h)); }
  void ser_os(int, std::ostream& os) const override { s->serialize(os); }
  Sk* de(int, const uint8_t* p, size_t n) const override { return new DnSk(S::deserialize(p, n, sim_gaussian_kernel<T>(), A(ARENA))); }
  Sk* de_is(int, std::istream& is) const override { return new DnSk(S::deserialize(is, sim_gaussian_kernel<T>(), A(ARENA))); }
};
template<typename T> struct DnFamily: Family {
  const char* name() const override { static std::string n = std::string("density<") + NameOf<T>::s() + ">"; return n.c_str(); }
  int cfg_len() const override { return 2; }
  void gen_cfg(sim::Rng& r, std::vector<i64>& cfg, int) const override { cfg.push_back(r.range(2, 12)); cfg.push_back(r.range(1, 3)); }
  Sk* make(const i64* cfg) const override { return new DnSk<T>(typename DnSk<T>::S(static_cast<uint16_t>(cfg[0]), static_cast<uint32_t>(cfg[1]), sim_gaussian_kernel<T>(), typename DnSk<T>::A(ARENA))); }
};

// families that only world `heap` (C19) drives: not part of the serialisation worlds (the baseline release does not compile them with a user allocator)
inline void register_misc_heap_extra() { static VouFamilyT<std::string> vus; static VouFamilyT<sim::titem> vut; static VoFamily<sim::titem> vt; families().push_back(&vus); families().push_back(&vut); families().push_back(&vt); }
inline void register_misc() {
  static FiFamily<int64_t> fi; static FiFamily<std::string> fs; static CmFamily cm;
  static VoFamily<int64_t> vi; static VoFamily<std::string> vs; static VouFamily vu;
  static EbFamily<int64_t> ei; static EbFamily<std::string> es; static BfFamily bf; static DnFamily<double> dd; static DnFamily<float> df;
  Family* all[] = { &fi, &fs, &cm, &vi, &vs, &vu, &ei, &es, &bf, &dd, &df };
  for (Family* f : all) families().push_back(f);
}

} // namespace fam
#endif
