// Type-erased adapters over the 16 serialisable sketch families (real library code underneath).
// Worlds `store` (C09, C10, C11) and `heap` (C19) drive every family through this one interface.
#ifndef DSIM_FAM_COMMON_HPP
#define DSIM_FAM_COMMON_HPP
#include "seams.hpp"
#include <serde.hpp>
#include <cmath>
#include <limits>

namespace fam {
using sim::i64; using sim::u64;
typedef std::vector<uint8_t> Bytes;
static int ARENA = 1;   // arena of the allocator instance handed to constructors and readers; the heap world builds objects in two arenas (instances compare unequal)

template<typename V> Bytes to_bytes(const V& v) { return Bytes(v.begin(), v.end()); }

// items of every supported kind from one integer
template<typename T> struct Item;
template<> struct Item<float> { static float make(i64 v) { return static_cast<float>(v); } static std::string str(float v) { return sim::hexd(v); } typedef datasketches::serde<float> serde; typedef std::less<float> less; };
template<> struct Item<double> { static double make(i64 v) { return static_cast<double>(v); } static std::string str(double v) { return sim::hexd(v); } typedef datasketches::serde<double> serde; typedef std::less<double> less; };
template<> struct Item<int64_t> { static int64_t make(i64 v) { return v; } static std::string str(int64_t v) { return std::to_string(v); } typedef datasketches::serde<int64_t> serde; typedef std::less<int64_t> less; };
template<> struct Item<std::string> {
  // some items carry bytes that are not text (0xFF is what a careless reader takes for end-of-file, 0x80.. sign-extend, 0x00 ends a C string)
  static std::string make(i64 v) { std::string s = "s" + std::to_string(v); if (v % 7 == 3) s += std::string(static_cast<size_t>(v % 40), 'x'); if (v % 11 == 5) { s += "\xff\xfe\x80"; s.push_back('\0'); s += "z"; } return s; }
  static std::string str(const std::string& v) { std::string o; for (unsigned char c : v) { if (c >= 0x20 && c < 0x7f && c != '\\') o += static_cast<char>(c); else { char b[8]; snprintf(b, sizeof(b), "\\x%02x", c); o += b; } } return o; }   // observations stay printable
  typedef datasketches::serde<std::string> serde; typedef std::less<std::string> less;
};
template<> struct Item<sim::titem> { static sim::titem make(i64 v) { return sim::titem(v); } static std::string str(const sim::titem& v) { return "t" + std::to_string(v.value()); } typedef sim::titem_serde serde; typedef sim::titem_less less; };

// the j-th item of a feed(start, count, pattern) batch
inline i64 feed_value(i64 start, i64 j, i64 count, i64 pattern) {
  switch (pattern & 7) {
    case 0: return start + j;                         // ascending
    case 1: return start + count - 1 - j;             // descending
    case 2: { u64 s = static_cast<u64>(start * 1000003 + j); return static_cast<i64>(sim::splitmix64(s) % 1000); }      // random, small universe (duplicates)
    case 3: return start;                             // constant
    case 4: { u64 s = static_cast<u64>(start * 7919 + j); return static_cast<i64>(sim::splitmix64(s) % 1000000) - 500000; } // random, wide, signed
    case 5: return start + (j % 5);                   // heavy duplicates
    case 6: return start + j * 37;                    // strided
    default: return -(start + j);                     // negative ascending magnitude
  }
}
inline double feed_weight(i64 v, i64 pattern) {   // dyadic weights so that sums are exact in doubles
  switch ((pattern >> 3) & 3) {
    case 0: return 1.0;
    case 1: return static_cast<double>(1 + (static_cast<u64>(v) % 8));
    case 2: return std::ldexp(1.0, static_cast<int>(static_cast<u64>(v) % 12) - 4);
    default: return (static_cast<u64>(v) % 50 == 0) ? 4096.0 : 0.5;
  }
}

struct Sk {
  virtual ~Sk() {}
  virtual const char* fam() const = 0;
  virtual Sk* clone() const = 0;                 // copy constructor
  virtual Sk* move_out() = 0;                    // move constructor into a new object
  virtual void copy_assign(const Sk& o) = 0;     // *this = o
  virtual void move_assign(Sk& o) = 0;           // *this = std::move(o)
  virtual void feed(i64 start, i64 count, i64 pattern) = 0;
  virtual bool can_merge() const { return true; }
  virtual void merge(const Sk& o) = 0;
  virtual void merge_move(Sk& o) = 0;
  virtual void reset() {}                        // where the family has one
  virtual std::string obs(bool det_only) const = 0;
  virtual bool deterministic() const { return true; }
  virtual int n_variants() const { return 1; }
  virtual Bytes ser(int variant, unsigned header) const = 0;
  virtual void ser_os(int variant, std::ostream& os) const = 0;
  virtual Sk* de(int variant, const uint8_t* p, size_t n) const = 0;
  virtual Sk* de_is(int variant, std::istream& is) const = 0;
  virtual bool has_stream_reader(int variant) const { (void)variant; return true; }
  virtual bool variant_ok(int variant) const { (void)variant; return true; }   // false: this state has no image of that variant by documented design
  virtual size_t advertised_size(int variant) const { (void)variant; return static_cast<size_t>(-1); }
  virtual size_t max_size(int variant) const { (void)variant; return static_cast<size_t>(-1); }
  // the in-memory object whose state the image of this variant holds (theta-like: the compact form); control for restore tests
  virtual Sk* image_source(int variant) const { (void)variant; return clone(); }
  // images that store a hash table in unspecified order are compared after sorting that section (written from the layout, not via the library)
  virtual Bytes canonical(int variant, const Bytes& img) const { (void)variant; return img; }
  virtual bool can_continue() const { return true; }   // restored object accepts feed()/merge()
  // false: the image of this state, in this variant, holds the logical content but not the internal arrangement that decides how later input is
  // clustered (t-digest: a single value is written as a value, whether it sat in the buffer or in a centroid); continuing is then compared on obs_stable()
  // false: the object already breaks an invariant of its own that another property reports (ebpps after certain merges holds one item more than its c says -
  // the recorded C18 finding); what such an object writes and reads back is not judged by the storage worlds
  virtual bool state_consistent() const { return true; }
  virtual bool continue_is_exact(int variant) const { (void)variant; return true; }
  virtual std::string obs_stable() const { return obs(true); }
};

inline std::string d2s(double d) { return sim::hexd(d); }

// a family: configuration generation (library-free) and construction
struct Family {
  virtual ~Family() {}
  virtual const char* name() const = 0;
  virtual void gen_cfg(sim::Rng& r, std::vector<i64>& cfg, int tier) const = 0;   // appends exactly cfg_len() values
  virtual int cfg_len() const = 0;
  virtual Sk* make(const i64* cfg) const = 0;
  virtual int n_variants() const { return 1; }
};
inline std::vector<Family*>& families() { static std::vector<Family*> f; return f; }
struct RegisterFamily { RegisterFamily(Family* f) { families().push_back(f); } };

} // namespace fam
#endif
