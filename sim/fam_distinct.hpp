// adapters: theta, tuple<double>, array-of-doubles tuple, hll, cpc
#ifndef DSIM_FAM_DISTINCT_HPP
#define DSIM_FAM_DISTINCT_HPP
#include "fam_common.hpp"
#include <theta_sketch.hpp>
#include <theta_union.hpp>
#include <tuple_sketch.hpp>
#include <tuple_union.hpp>
#include <array_tuple_sketch.hpp>
#include <array_tuple_union.hpp>
#include <hll.hpp>
#include <cpc_sketch.hpp>
#include <cpc_union.hpp>

namespace fam {
namespace ds = datasketches;

static const float THETA_P[4] = { 1.0f, 0.5f, 0.1f, 0.01f };
static const u64 SEEDS[3] = { ds::DEFAULT_SEED, 12345, 0x9e3779b97f4a7c15ULL };

template<typename S> std::string obs_theta_common(const S& s) {
  std::string o;
  o += "theta=" + std::to_string(s.get_theta64()) + " empty=" + std::to_string(s.is_empty()) + " n=" + std::to_string(s.get_num_retained()) +
       " est_mode=" + std::to_string(s.is_estimation_mode()) + " est=" + d2s(s.get_estimate()) + " seedhash=" + std::to_string(s.get_seed_hash());
  for (int i = 1; i <= 3; i++) o += " lb" + std::to_string(i) + "=" + d2s(s.get_lower_bound(i)) + " ub" + std::to_string(i) + "=" + d2s(s.get_upper_bound(i));
  return o;
}

// ------------------------------------------------------------------ theta
struct ThetaSk: Sk {
  typedef sim::talloc<uint64_t> A;
  typedef ds::update_theta_sketch_alloc<A> U;
  typedef ds::compact_theta_sketch_alloc<A> C;
  typedef ds::wrapped_compact_theta_sketch_alloc<A> W;
  int lg_k; int rf; float p; u64 seed;
  std::unique_ptr<U> u; std::unique_ptr<C> c; std::unique_ptr<W> w; std::unique_ptr<sim::ExactBuf> wbuf;
  ThetaSk(int lg_k_, int rf_, float p_, u64 seed_): lg_k(lg_k_), rf(rf_), p(p_), seed(seed_) {}
  static U build(int lg_k, int rf, float p, u64 seed) {
    return typename U::builder(A(ARENA)).set_lg_k(static_cast<uint8_t>(lg_k)).set_resize_factor(static_cast<typename U::resize_factor>(rf)).set_p(p).set_seed(seed).build();
  }
  const char* fam() const override { return "theta"; }
  ThetaSk* shell() const { return new ThetaSk(lg_k, rf, p, seed); }
  Sk* clone() const override {
    ThetaSk* n = shell();
    if (u) n->u.reset(new U(*u));
    if (c) n->c.reset(new C(*c));
    if (w) { n->wbuf.reset(new sim::ExactBuf(wbuf->p, wbuf->n)); n->w.reset(new W(W::wrap(n->wbuf->p, n->wbuf->n, seed))); }
    return n;
  }
  Sk* move_out() override {
    ThetaSk* n = shell();
    if (u) n->u.reset(new U(std::move(*u)));
    if (c) n->c.reset(new C(std::move(*c)));
    if (w) { n->wbuf = std::move(wbuf); n->w = std::move(w); }
    return n;
  }
  void copy_assign(const Sk& o_) override {
    const ThetaSk& o = static_cast<const ThetaSk&>(o_);
    lg_k = o.lg_k; rf = o.rf; p = o.p; seed = o.seed;
    if (o.u) { if (u) *u = *o.u; else u.reset(new U(*o.u)); } else u.reset();
    if (o.c) { if (c) *c = *o.c; else c.reset(new C(*o.c)); } else c.reset();
    if (o.w) { if (&o != this) { wbuf.reset(new sim::ExactBuf(o.wbuf->p, o.wbuf->n)); w.reset(new W(W::wrap(wbuf->p, wbuf->n, seed))); } } else { w.reset(); wbuf.reset(); }
  }
  void move_assign(Sk& o_) override {
    ThetaSk& o = static_cast<ThetaSk&>(o_);
    lg_k = o.lg_k; rf = o.rf; p = o.p; seed = o.seed;
    if (o.u) { if (u) *u = std::move(*o.u); else u.reset(new U(std::move(*o.u))); } else u.reset();
    if (o.c) { if (c) *c = std::move(*o.c); else c.reset(new C(std::move(*o.c))); } else c.reset();
    if (o.w) { if (&o != this) { wbuf = std::move(o.wbuf); w = std::move(o.w); } } else { w.reset(); wbuf.reset(); }
  }
  static void feed_into(U& s, i64 start, i64 count, i64 pattern) {
    for (i64 j = 0; j < count; j++) {
      i64 v = feed_value(start, j, count, pattern);
      if ((pattern >> 5) & 1) s.update(Item<std::string>::make(v)); else s.update(static_cast<int64_t>(v));
    }
  }
  C as_compact(bool ordered) const {
    if (u) return u->compact(ordered);
    if (c) return C(*c);
    return C(*w, w->is_ordered());
  }
  void feed(i64 start, i64 count, i64 pattern) override {
    if (u) { feed_into(*u, start, count, pattern); return; }
    // compact / wrapped form continues through a union with freshly collected data
    U fresh = build(lg_k, rf, 1.0f, seed); feed_into(fresh, start, count, pattern);
    unite(fresh, false);
  }
  template<typename O> void unite(O&& other, bool mv) {
    auto un = typename ds::theta_union_alloc<A>::builder(A(ARENA)).set_lg_k(static_cast<uint8_t>(lg_k)).set_seed(seed).build();
    if (u) un.update(*u); else if (c) un.update(*c); else un.update(*w);
    if (mv) un.update(std::move(other)); else un.update(other);
    C res = un.get_result(true);
    u.reset(); w.reset(); wbuf.reset(); c.reset(new C(std::move(res)));
  }
  void merge(const Sk& o_) override {
    const ThetaSk& o = static_cast<const ThetaSk&>(o_);
    if (o.u) unite(*o.u, false); else if (o.c) unite(*o.c, false); else unite(*o.w, false);
  }
  void merge_move(Sk& o_) override {
    ThetaSk& o = static_cast<ThetaSk&>(o_);
    if (o.u) unite(*o.u, true); else if (o.c) unite(*o.c, true); else unite(*o.w, false);
  }
  void reset() override { if (u) u->reset(); }
  template<typename S> static std::string obs_of(const S& s) {
    std::string o = obs_theta_common(s);
    std::vector<u64> e; bool sorted = true; u64 prev = 0;
    for (auto it = s.begin(); it != s.end(); ++it) { u64 h = *it; if (!e.empty() && h < prev) sorted = false; prev = h; e.push_back(h); }
    if (s.is_ordered() && !sorted) o += " ORDERED-BUT-NOT-SORTED";
    std::sort(e.begin(), e.end());
    o += " entries=[";
    for (u64 h : e) o += std::to_string(h) + ",";
    return o + "]";
  }
  std::string obs(bool) const override { if (u) return obs_of(*u); if (c) return obs_of(*c); return obs_of(*w); }
  int n_variants() const override { return 5; }
  Sk* image_source(int v) const override { ThetaSk* n = shell(); n->c.reset(new C(as_compact(v != 2))); return n; }
  bool has_stream_reader(int v) const override { return v < 3; }
  Bytes ser(int v, unsigned h) const override {
    C cc = as_compact(v != 2);
    return (v == 1 || v == 4) ? to_bytes(cc.serialize_compressed(h)) : to_bytes(cc.serialize(h));
  }
  void ser_os(int v, std::ostream& os) const override {
    C cc = as_compact(v != 2);
    if (v == 1 || v == 4) cc.serialize_compressed(os); else cc.serialize(os);
  }
  Sk* de(int v, const uint8_t* p_, size_t n) const override {
    std::unique_ptr<ThetaSk> s(shell());
    if (v >= 3) { s->wbuf.reset(new sim::ExactBuf(p_, n)); s->w.reset(new W(W::wrap(s->wbuf->p, s->wbuf->n, seed))); }
    else s->c.reset(new C(C::deserialize(p_, n, seed, A(ARENA))));
    return s.release();
  }
  Sk* de_is(int, std::istream& is) const override {
    std::unique_ptr<ThetaSk> s(shell());
    s->c.reset(new C(C::deserialize(is, seed, A(ARENA))));
    return s.release();
  }
  size_t advertised_size(int v) const override {
    C cc = as_compact(v != 2);
    return cc.get_serialized_size_bytes(v == 1 || v == 4);
  }
  size_t max_size(int) const override { return C::get_max_serialized_size_bytes(static_cast<uint8_t>(std::max(lg_k, 5))) ; }
};
struct ThetaFamily: Family {
  const char* name() const override { return "theta"; }
  int cfg_len() const override { return 4; }
  int n_variants() const override { return 5; }
  void gen_cfg(sim::Rng& r, std::vector<i64>& cfg, int tier) const override {
    static const int lgs[] = { 5, 5, 6, 7, 8, 9, 12 };
    cfg.push_back(r.pick(lgs)); cfg.push_back(r.below(4)); cfg.push_back(r.chance(2, 3) ? 0 : r.below(4)); cfg.push_back(r.below(3)); (void)tier;
  }
  Sk* make(const i64* cfg) const override {
    std::unique_ptr<ThetaSk> s(new ThetaSk(static_cast<int>(cfg[0]), static_cast<int>(cfg[1]), THETA_P[cfg[2] & 3], SEEDS[cfg[3] % 3]));
    s->u.reset(new ThetaSk::U(ThetaSk::build(s->lg_k, s->rf, s->p, s->seed)));
    return s.release();
  }
};

// ------------------------------------------------------------------ tuple<double>
struct TupleSk: Sk {
  typedef sim::talloc<double> A;
  typedef ds::update_tuple_sketch<double, double, ds::default_tuple_update_policy<double, double>, A> U;
  typedef ds::compact_tuple_sketch<double, A> C;
  typedef ds::tuple_union<double, ds::default_tuple_union_policy<double>, A> UN;
  int lg_k; int rf; float p; u64 seed;
  std::unique_ptr<U> u; std::unique_ptr<C> c;
  TupleSk(int lg_k_, int rf_, float p_, u64 seed_): lg_k(lg_k_), rf(rf_), p(p_), seed(seed_) {}
  static U build(int lg_k, int rf, float p, u64 seed) {
    return typename U::builder(ds::default_tuple_update_policy<double, double>(), A(ARENA)).set_lg_k(static_cast<uint8_t>(lg_k)).set_resize_factor(static_cast<typename U::resize_factor>(rf)).set_p(p).set_seed(seed).build();
  }
  const char* fam() const override { return "tuple"; }
  TupleSk* shell() const { return new TupleSk(lg_k, rf, p, seed); }
  Sk* clone() const override { TupleSk* n = shell(); if (u) n->u.reset(new U(*u)); if (c) n->c.reset(new C(*c)); return n; }
  Sk* move_out() override { TupleSk* n = shell(); if (u) n->u.reset(new U(std::move(*u))); if (c) n->c.reset(new C(std::move(*c))); return n; }
  void copy_assign(const Sk& o_) override {
    const TupleSk& o = static_cast<const TupleSk&>(o_); lg_k = o.lg_k; rf = o.rf; p = o.p; seed = o.seed;
    if (o.u) { if (u) *u = *o.u; else u.reset(new U(*o.u)); } else u.reset();
    if (o.c) { if (c) *c = *o.c; else c.reset(new C(*o.c)); } else c.reset();
  }
  void move_assign(Sk& o_) override {
    TupleSk& o = static_cast<TupleSk&>(o_); lg_k = o.lg_k; rf = o.rf; p = o.p; seed = o.seed;
    if (o.u) { if (u) *u = std::move(*o.u); else u.reset(new U(std::move(*o.u))); } else u.reset();
    if (o.c) { if (c) *c = std::move(*o.c); else c.reset(new C(std::move(*o.c))); } else c.reset();
  }
  static void feed_into(U& s, i64 start, i64 count, i64 pattern) {
    for (i64 j = 0; j < count; j++) { i64 v = feed_value(start, j, count, pattern); s.update(static_cast<int64_t>(v), feed_weight(v, pattern | 8)); }
  }
  C as_compact(bool ordered) const { return u ? u->compact(ordered) : C(*c); }
  template<typename O> void unite(O&& other, bool mv) {
    UN un = typename UN::builder(ds::default_tuple_union_policy<double>(), A(ARENA)).set_lg_k(static_cast<uint8_t>(lg_k)).set_seed(seed).build();
    if (u) un.update(*u); else un.update(*c);
    if (mv) un.update(std::move(other)); else un.update(other);
    C res = un.get_result(true); u.reset(); c.reset(new C(std::move(res)));
  }
  void feed(i64 start, i64 count, i64 pattern) override {
    if (u) { feed_into(*u, start, count, pattern); return; }
    U fresh = build(lg_k, rf, 1.0f, seed); feed_into(fresh, start, count, pattern); unite(fresh, false);
  }
  void merge(const Sk& o_) override { const TupleSk& o = static_cast<const TupleSk&>(o_); if (o.u) unite(*o.u, false); else unite(*o.c, false); }
  void merge_move(Sk& o_) override { TupleSk& o = static_cast<TupleSk&>(o_); if (o.u) unite(*o.u, true); else unite(*o.c, true); }
  void reset() override { if (u) u->reset(); }
  template<typename S> static std::string obs_of(const S& s) {
    std::string o = obs_theta_common(s);
    std::vector<std::pair<u64, double>> e; bool sorted = true; u64 prev = 0;
    for (auto it = s.begin(); it != s.end(); ++it) { u64 h = it->first; if (!e.empty() && h < prev) sorted = false; prev = h; e.push_back(std::make_pair(h, it->second)); }
    if (s.is_ordered() && !sorted) o += " ORDERED-BUT-NOT-SORTED";
    std::sort(e.begin(), e.end());
    o += " entries=[";
    for (auto& kv : e) o += std::to_string(kv.first) + ":" + d2s(kv.second) + ",";
    return o + "]";
  }
  std::string obs(bool) const override { return u ? obs_of(*u) : obs_of(*c); }
  int n_variants() const override { return 2; }
  Sk* image_source(int v) const override { TupleSk* n = shell(); n->c.reset(new C(as_compact(v == 0))); return n; }
  Bytes ser(int v, unsigned h) const override { return to_bytes(as_compact(v == 0).serialize(h, ds::serde<double>())); }
  void ser_os(int v, std::ostream& os) const override { as_compact(v == 0).serialize(os, ds::serde<double>()); }
  Sk* de(int, const uint8_t* p_, size_t n) const override { std::unique_ptr<TupleSk> s(shell()); s->c.reset(new C(C::deserialize(p_, n, seed, ds::serde<double>(), A(ARENA)))); return s.release(); }
  Sk* de_is(int, std::istream& is) const override { std::unique_ptr<TupleSk> s(shell()); s->c.reset(new C(C::deserialize(is, seed, ds::serde<double>(), A(ARENA)))); return s.release(); }
};
struct TupleFamily: Family {
  const char* name() const override { return "tuple"; }
  int cfg_len() const override { return 4; }
  int n_variants() const override { return 2; }
  void gen_cfg(sim::Rng& r, std::vector<i64>& cfg, int) const override {
    static const int lgs[] = { 5, 5, 6, 7, 8, 9 };
    cfg.push_back(r.pick(lgs)); cfg.push_back(r.below(4)); cfg.push_back(r.chance(2, 3) ? 0 : r.below(4)); cfg.push_back(r.below(3));
  }
  Sk* make(const i64* cfg) const override {
    std::unique_ptr<TupleSk> s(new TupleSk(static_cast<int>(cfg[0]), static_cast<int>(cfg[1]), THETA_P[cfg[2] & 3], SEEDS[cfg[3] % 3]));
    s->u.reset(new TupleSk::U(TupleSk::build(s->lg_k, s->rf, s->p, s->seed)));
    return s.release();
  }
};

// ------------------------------------------------------------------ array-of-doubles tuple
struct AodSk: Sk {
  typedef sim::talloc<double> A;
  typedef ds::array<double, A> Arr;
  typedef ds::default_array_tuple_update_policy<Arr, A> Pol;
  typedef ds::update_array_tuple_sketch<Arr, Pol, A> U;
  typedef ds::compact_array_tuple_sketch<Arr, A> C;
  typedef ds::array_tuple_union<Arr, ds::default_array_tuple_union_policy<Arr>, A> UN;
  int lg_k; int nv; float p; u64 seed;
  std::unique_ptr<U> u; std::unique_ptr<C> c;
  AodSk(int lg_k_, int nv_, float p_, u64 seed_): lg_k(lg_k_), nv(nv_), p(p_), seed(seed_) {}
  static U build(int lg_k, int nv, float p, u64 seed) {
    return typename U::builder(Pol(static_cast<uint8_t>(nv), A(ARENA)), A(ARENA)).set_lg_k(static_cast<uint8_t>(lg_k)).set_p(p).set_seed(seed).build();
  }
  const char* fam() const override { return "aod"; }
  AodSk* shell() const { return new AodSk(lg_k, nv, p, seed); }
  Sk* clone() const override { AodSk* n = shell(); if (u) n->u.reset(new U(*u)); if (c) n->c.reset(new C(*c)); return n; }
  Sk* move_out() override { AodSk* n = shell(); if (u) n->u.reset(new U(std::move(*u))); if (c) n->c.reset(new C(std::move(*c))); return n; }
  void copy_assign(const Sk& o_) override {
    const AodSk& o = static_cast<const AodSk&>(o_); lg_k = o.lg_k; nv = o.nv; p = o.p; seed = o.seed;
    if (o.u) { if (u) *u = *o.u; else u.reset(new U(*o.u)); } else u.reset();
    if (o.c) { if (c) *c = *o.c; else c.reset(new C(*o.c)); } else c.reset();
  }
  void move_assign(Sk& o_) override {
    AodSk& o = static_cast<AodSk&>(o_); lg_k = o.lg_k; nv = o.nv; p = o.p; seed = o.seed;
    if (o.u) { if (u) *u = std::move(*o.u); else u.reset(new U(std::move(*o.u))); } else u.reset();
    if (o.c) { if (c) *c = std::move(*o.c); else c.reset(new C(std::move(*o.c))); } else c.reset();
  }
  void feed_into(U& s, i64 start, i64 count, i64 pattern) const {
    std::vector<double> val(static_cast<size_t>(nv));
    for (i64 j = 0; j < count; j++) {
      i64 v = feed_value(start, j, count, pattern);
      for (int i = 0; i < nv; i++) val[static_cast<size_t>(i)] = feed_weight(v + i, pattern | 8);
      s.update(static_cast<int64_t>(v), val);
    }
  }
  C as_compact(bool ordered) const { return u ? u->compact(ordered) : C(*c); }
  template<typename O> void unite(O&& other, bool mv) {
    UN un = typename UN::builder(ds::default_array_tuple_union_policy<Arr>(static_cast<uint8_t>(nv)), A(ARENA)).set_lg_k(static_cast<uint8_t>(lg_k)).set_seed(seed).build();
    if (u) un.update(*u); else un.update(*c);
    if (mv) un.update(std::move(other)); else un.update(other);
    C res = un.get_result(true); u.reset(); c.reset(new C(std::move(res)));
  }
  void feed(i64 start, i64 count, i64 pattern) override {
    if (u) { feed_into(*u, start, count, pattern); return; }
    U fresh = build(lg_k, nv, 1.0f, seed); feed_into(fresh, start, count, pattern); unite(fresh, false);
  }
  void merge(const Sk& o_) override { const AodSk& o = static_cast<const AodSk&>(o_); if (o.nv != nv) return; if (o.u) unite(*o.u, false); else unite(*o.c, false); }
  void merge_move(Sk& o_) override { AodSk& o = static_cast<AodSk&>(o_); if (o.nv != nv) return; if (o.u) unite(*o.u, true); else unite(*o.c, true); }
  void reset() override { if (u) u->reset(); }
  template<typename S> static std::string obs_of(const S& s, int nvals) {
    std::string o = obs_theta_common(s) + " nv=" + std::to_string(nvals);
    std::vector<std::pair<u64, std::string>> e; bool sorted = true; u64 prev = 0;
    for (auto it = s.begin(); it != s.end(); ++it) {
      u64 h = it->first; if (!e.empty() && h < prev) sorted = false; prev = h;
      std::string vs; for (int i = 0; i < it->second.size(); i++) vs += d2s(it->second[static_cast<size_t>(i)]) + "/";
      e.push_back(std::make_pair(h, vs));
    }
    if (s.is_ordered() && !sorted) o += " ORDERED-BUT-NOT-SORTED";
    std::sort(e.begin(), e.end());
    o += " entries=[";
    for (auto& kv : e) o += std::to_string(kv.first) + ":" + kv.second + ",";
    return o + "]";
  }
  std::string obs(bool) const override { return u ? obs_of(*u, u->get_num_values()) : obs_of(*c, c->get_num_values()); }
  int n_variants() const override { return 2; }
  Sk* image_source(int v) const override { AodSk* n = shell(); n->c.reset(new C(as_compact(v == 0))); return n; }
  Bytes ser(int v, unsigned h) const override { return to_bytes(as_compact(v == 0).serialize(h)); }
  void ser_os(int v, std::ostream& os) const override { as_compact(v == 0).serialize(os); }
  Sk* de(int, const uint8_t* p_, size_t n) const override { std::unique_ptr<AodSk> s(shell()); s->c.reset(new C(C::deserialize(p_, n, seed, A(ARENA)))); s->nv = s->c->get_num_values(); return s.release(); }
  Sk* de_is(int, std::istream& is) const override { std::unique_ptr<AodSk> s(shell()); s->c.reset(new C(C::deserialize(is, seed, A(ARENA)))); s->nv = s->c->get_num_values(); return s.release(); }
};
struct AodFamily: Family {
  const char* name() const override { return "aod"; }
  int cfg_len() const override { return 4; }
  int n_variants() const override { return 2; }
  void gen_cfg(sim::Rng& r, std::vector<i64>& cfg, int) const override {
    static const int lgs[] = { 5, 5, 6, 7, 8 };
    cfg.push_back(r.pick(lgs)); cfg.push_back(1 + r.below(4)); cfg.push_back(r.chance(2, 3) ? 0 : r.below(4)); cfg.push_back(r.below(3));
  }
  Sk* make(const i64* cfg) const override {
    std::unique_ptr<AodSk> s(new AodSk(static_cast<int>(cfg[0]), static_cast<int>(cfg[1]), THETA_P[cfg[2] & 3], SEEDS[cfg[3] % 3]));
    s->u.reset(new AodSk::U(AodSk::build(s->lg_k, s->nv, s->p, s->seed)));
    return s.release();
  }
};

// ------------------------------------------------------------------ hll
struct HllSk: Sk {
  typedef sim::talloc<uint8_t> A;
  typedef ds::hll_sketch_alloc<A> S;
  std::unique_ptr<S> s;
  explicit HllSk(S&& s_): s(new S(std::move(s_))) {}
  const char* fam() const override { return "hll"; }
  Sk* clone() const override { return new HllSk(S(*s)); }
  Sk* move_out() override { return new HllSk(S(std::move(*s))); }
  void copy_assign(const Sk& o) override { *s = *static_cast<const HllSk&>(o).s; }
  void move_assign(Sk& o) override { *s = std::move(*static_cast<HllSk&>(o).s); }
  void feed(i64 start, i64 count, i64 pattern) override {
    for (i64 j = 0; j < count; j++) { i64 v = feed_value(start, j, count, pattern); if ((pattern >> 5) & 1) s->update(Item<std::string>::make(v)); else s->update(static_cast<int64_t>(v)); }
  }
  template<typename O> void unite(O&& other, bool mv) {
    ds::hll_union_alloc<A> un(s->get_lg_config_k(), A(ARENA));
    un.update(*s);
    if (mv) un.update(std::move(other)); else un.update(other);
    S res = un.get_result(s->get_target_type());
    *s = std::move(res);
  }
  void merge(const Sk& o) override { unite(*static_cast<const HllSk&>(o).s, false); }
  void merge_move(Sk& o) override { unite(*static_cast<HllSk&>(o).s, true); }
  void reset() override { s->reset(); }
  // logical_only: without the HIP estimate and its bounds, which legitimately depend on the order in which coupons were presented
  // (a restored coupon table replays its coupons in another order when it is merged)
  std::string obs(bool logical_only) const override {
    std::string o = "lgk=" + std::to_string(s->get_lg_config_k()) + " type=" + std::to_string(s->get_target_type()) + " empty=" + std::to_string(s->is_empty()) +
      " comp=" + d2s(s->get_composite_estimate()) + " cbytes=" + std::to_string(s->get_compact_serialization_bytes()) +
      " ubytes=" + std::to_string(s->get_updatable_serialization_bytes());
    if (!logical_only) { o += " est=" + d2s(s->get_estimate()); for (int i = 1; i <= 3; i++) o += " lb=" + d2s(s->get_lower_bound(i)) + " ub=" + d2s(s->get_upper_bound(i)); }
    // logical content: the HLL_8 updatable image of a copy (mode byte, coupons or registers), sorted where it is a table
    S h8(*s, ds::HLL_8);
    auto img = h8.serialize_updatable();
    int mode = img.size() > 7 ? (img[7] & 3) : -1;
    o += " mode=" + std::to_string(mode) + " content=";
    if (mode == 2) { o += std::to_string(sim::fnv1a(img.data() + 40, img.size() - 40)); }
    else if (mode >= 0) {
      size_t off = mode == 0 ? 8 : 12; std::vector<uint32_t> cp;
      for (size_t i = off; i + 4 <= img.size(); i += 4) { uint32_t v = sim::load32le(img.data() + i); if (v) cp.push_back(v); }
      std::sort(cp.begin(), cp.end());
      o += std::to_string(cp.size()) + ":" + std::to_string(sim::fnv1a(cp.data(), cp.size() * 4));
    }
    return o;
  }
  int n_variants() const override { return 2; }
  Bytes ser(int v, unsigned h) const override {
    if (v == 0) return to_bytes(s->serialize_compact(h));
    Bytes b(h, 0); auto img = s->serialize_updatable(); b.insert(b.end(), img.begin(), img.end()); return b;   // no header parameter on this API
  }
  void ser_os(int v, std::ostream& os) const override { if (v == 0) s->serialize_compact(os); else s->serialize_updatable(os); }
  Sk* de(int, const uint8_t* p, size_t n) const override { return new HllSk(S::deserialize(p, n, A(ARENA))); }
  Sk* de_is(int, std::istream& is) const override { return new HllSk(S::deserialize(is, A(ARENA))); }
  size_t advertised_size(int v) const override { return v == 0 ? s->get_compact_serialization_bytes() : s->get_updatable_serialization_bytes(); }
  // layout (HllUtil.hpp / *-internal.hpp comments): byte 1 serial version, byte 3 lg_k, byte 7 low 2 bits mode (0 list, 1 set, 2 hll), bits 2-3 type;
  // list: coupons from 8; set: coupons from 12; hll: registers from 40, HLL_4 aux pairs after 2^(lg_k-1) register bytes
  static void sort_u32(Bytes& b, size_t from) { std::vector<uint32_t> v; for (size_t i = from; i + 4 <= b.size(); i += 4) v.push_back(sim::load32le(b.data() + i)); std::sort(v.begin(), v.end()); for (size_t i = 0; i < v.size(); i++) std::memcpy(b.data() + from + 4 * i, &v[i], 4); }
  Bytes canonical(int, const Bytes& img) const override {
    Bytes b = img; if (b.size() < 8) return b;
    const int mode = b[7] & 3, type = (b[7] >> 2) & 3;
    if (mode == 0) sort_u32(b, 8); else if (mode == 1) sort_u32(b, 12);
    else if (mode == 2 && type == 0) { size_t aux = 40 + (static_cast<size_t>(1) << (b[3] - 1)); if (aux < b.size()) sort_u32(b, aux); }
    return b;
  }
  size_t max_size(int) const override { return S::get_max_updatable_serialization_bytes(s->get_lg_config_k(), s->get_target_type()); }
};
struct HllFamily: Family {
  const char* name() const override { return "hll"; }
  int cfg_len() const override { return 3; }
  int n_variants() const override { return 2; }
  void gen_cfg(sim::Rng& r, std::vector<i64>& cfg, int tier) const override { cfg.push_back(r.range(4, tier ? 14 : 11)); cfg.push_back(r.below(3)); cfg.push_back(r.chance(1, 5)); }
  Sk* make(const i64* cfg) const override { return new HllSk(HllSk::S(static_cast<uint8_t>(cfg[0]), static_cast<ds::target_hll_type>(cfg[1]), cfg[2] != 0, HllSk::A(ARENA))); }
};

// ------------------------------------------------------------------ cpc
struct CpcSk: Sk {
  typedef sim::talloc<uint8_t> A;
  typedef ds::cpc_sketch_alloc<A> S;
  u64 seed; std::unique_ptr<S> s;
  CpcSk(S&& s_, u64 seed_): seed(seed_), s(new S(std::move(s_))) {}
  const char* fam() const override { return "cpc"; }
  Sk* clone() const override { return new CpcSk(S(*s), seed); }
  Sk* move_out() override { return new CpcSk(S(std::move(*s)), seed); }
  void copy_assign(const Sk& o) override { *s = *static_cast<const CpcSk&>(o).s; seed = static_cast<const CpcSk&>(o).seed; }
  void move_assign(Sk& o) override { *s = std::move(*static_cast<CpcSk&>(o).s); seed = static_cast<CpcSk&>(o).seed; }
  void feed(i64 start, i64 count, i64 pattern) override {
    for (i64 j = 0; j < count; j++) { i64 v = feed_value(start, j, count, pattern); if ((pattern >> 5) & 1) s->update(Item<std::string>::make(v)); else s->update(static_cast<int64_t>(v)); }
    // some batches are topped up until the number of coupons sits exactly on a boundary of the compressor's phase / code-table selection (3k/4, k/2, 3k/32, k)
    if ((pattern & 0x18) == 0x18) { const u64 k = 1ULL << s->get_lg_k(); static const u64 num[] = { 3, 1, 3, 1 }, den[] = { 4, 2, 32, 1 }; const size_t w = static_cast<size_t>(start) % 4; const u64 target = k * num[w] / den[w];
      for (i64 x = start * 7919 + 1000000; s->get_num_coupons() < target && x < start * 7919 + 1000000 + 8 * static_cast<i64>(k); x++) s->update(static_cast<int64_t>(x)); }
  }
  template<typename O> void unite(O&& other, bool mv) {
    ds::cpc_union_alloc<A> un(s->get_lg_k(), seed, A(ARENA));
    un.update(*s);
    if (mv) un.update(std::move(other)); else un.update(other);
    S res = un.get_result(); *s = std::move(res);
  }
  void merge(const Sk& o) override { if (static_cast<const CpcSk&>(o).seed != seed) return; unite(*static_cast<const CpcSk&>(o).s, false); }
  void merge_move(Sk& o) override { if (static_cast<CpcSk&>(o).seed != seed) return; unite(*static_cast<CpcSk&>(o).s, true); }
  std::string obs(bool) const override {
    std::string o = "lgk=" + std::to_string(s->get_lg_k()) + " empty=" + std::to_string(s->is_empty()) + " C=" + std::to_string(s->get_num_coupons()) +
      " est=" + d2s(s->get_estimate()) + " valid=" + std::to_string(s->validate());
    for (unsigned i = 1; i <= 3; i++) o += " lb=" + d2s(s->get_lower_bound(i)) + " ub=" + d2s(s->get_upper_bound(i));
    return o;
  }
  Bytes ser(int, unsigned h) const override { return to_bytes(s->serialize(h)); }
  void ser_os(int, std::ostream& os) const override { s->serialize(os); }
  Sk* de(int, const uint8_t* p, size_t n) const override { return new CpcSk(S::deserialize(p, n, seed, A(ARENA)), seed); }
  Sk* de_is(int, std::istream& is) const override { return new CpcSk(S::deserialize(is, seed, A(ARENA)), seed); }
  size_t max_size(int) const override { return S::get_max_serialized_size_bytes(s->get_lg_k()); }
};
struct CpcFamily: Family {
  const char* name() const override { return "cpc"; }
  int cfg_len() const override { return 2; }
  void gen_cfg(sim::Rng& r, std::vector<i64>& cfg, int tier) const override { cfg.push_back(r.range(4, tier ? 12 : 10)); cfg.push_back(r.below(3)); }
  Sk* make(const i64* cfg) const override { u64 seed = SEEDS[cfg[1] % 3]; return new CpcSk(CpcSk::S(static_cast<uint8_t>(cfg[0]), seed, CpcSk::A(ARENA)), seed); }
};

inline void register_distinct() {
  static ThetaFamily t; static TupleFamily tu; static AodFamily ao; static HllFamily h; static CpcFamily c;
  families().push_back(&t); families().push_back(&tu); families().push_back(&ao); families().push_back(&h); families().push_back(&c);
}

} // namespace fam
#endif
