// dsim driver: supervisor/worker loop, violation gating, shrinking, replay. Include once per binary.
#ifndef DSIM_DRIVER_HPP
#define DSIM_DRIVER_HPP
#include "core.hpp"
#include <fstream>

// sanitizer hits must be classifiable: exit code 77, no leak checking at exit (the tracking allocator does that job)
extern "C" __attribute__((used, visibility("default"))) const char* __asan_default_options() {
  return "exitcode=77:detect_leaks=0:allocator_may_return_null=1:abort_on_error=0:detect_stack_use_after_return=0:max_allocation_size_mb=1024";
}
extern "C" __attribute__((used, visibility("default"))) const char* __ubsan_default_options() {
  return "exitcode=77:print_stacktrace=1:halt_on_error=1";
}

namespace sim { long long g_global_new_live = 0; int g_track_global_new = 0; long long g_tracked_global_live = 0;
  static const size_t TRACK_SLOTS = 1 << 18; static void* g_tracked[TRACK_SLOTS]; static size_t g_tombstones = 0;
  static inline size_t track_slot(void* p) { return (reinterpret_cast<uintptr_t>(p) >> 4) * 0x9E3779B97F4A7C15ULL >> (64 - 18); }
  static inline void track_add(void* p) { size_t i = track_slot(p); for (size_t n = 0; n < TRACK_SLOTS; n++, i = (i + 1) & (TRACK_SLOTS - 1)) if (g_tracked[i] == nullptr || g_tracked[i] == reinterpret_cast<void*>(1)) { g_tracked[i] = p; ++g_tracked_global_live; return; } }
  static inline void track_remove(void* p) { size_t i = track_slot(p); for (size_t n = 0; n < TRACK_SLOTS && g_tracked[i] != nullptr; n++, i = (i + 1) & (TRACK_SLOTS - 1)) if (g_tracked[i] == p) { g_tracked[i] = reinterpret_cast<void*>(1); --g_tracked_global_live; if (++g_tombstones > 4096 && g_tracked_global_live == 0) { std::memset(g_tracked, 0, sizeof(g_tracked)); g_tombstones = 0; } return; } }   // tombstones are swept whenever the table is empty, else probe sequences grow without bound
  static inline void* counted_alloc(std::size_t n) { void* p = std::malloc(n ? n : 1); if (p) { ++g_global_new_live; if (g_track_global_new > 0) track_add(p); } return p; }
  static inline void counted_free(void* p) { if (p) { --g_global_new_live; if (g_tracked_global_live > 0) track_remove(p); std::free(p); } }
}
// replacement global allocation functions (one definition per binary): malloc/free underneath, so ASan still sees every block
void* operator new(std::size_t n) { void* p = sim::counted_alloc(n); if (!p) throw std::bad_alloc(); return p; }
void* operator new[](std::size_t n) { void* p = sim::counted_alloc(n); if (!p) throw std::bad_alloc(); return p; }
void* operator new(std::size_t n, const std::nothrow_t&) noexcept { return sim::counted_alloc(n); }
void* operator new[](std::size_t n, const std::nothrow_t&) noexcept { return sim::counted_alloc(n); }
void operator delete(void* p) noexcept { sim::counted_free(p); }
void operator delete[](void* p) noexcept { sim::counted_free(p); }
void operator delete(void* p, std::size_t) noexcept { sim::counted_free(p); }
void operator delete[](void* p, std::size_t) noexcept { sim::counted_free(p); }
void operator delete(void* p, const std::nothrow_t&) noexcept { sim::counted_free(p); }
void operator delete[](void* p, const std::nothrow_t&) noexcept { sim::counted_free(p); }

namespace sim {

struct Args {
  std::map<std::string, std::string> kv;
  std::string get(const std::string& k, const std::string& d = "") const { auto it = kv.find(k); return it == kv.end() ? d : it->second; }
  u64 num(const std::string& k, u64 d) const { auto it = kv.find(k); return it == kv.end() ? d : std::strtoull(it->second.c_str(), nullptr, 10); }
};

inline std::string read_file(const std::string& path) {
  std::ifstream f(path, std::ios::binary); std::ostringstream ss; ss << f.rdbuf(); return ss.str();
}

inline std::string write_plan_file(const std::string& dir, const Plan& p, u64 verif_seed, u64 run_index, const std::string& fp,
    const std::string& detail, u64 trace, const Plan& original, int shrink_exec) {
  std::string path = dir + "/" + p.world + "-" + std::to_string(verif_seed) + "-" + std::to_string(run_index) + ".plan";
  std::ofstream f(path);
  f << "fingerprint " << fp << "\n" << "detail " << detail << "\n" << "trace " << trace << "\n" << "verif_seed " << verif_seed << "\n"
    << "run_index " << run_index << "\n" << "original_steps " << original.steps.size() << "\n" << "shrink_executions " << shrink_exec << "\n" << p.to_text();
  return path;
}

// handles one violation found in-process: determinism gate, shrink, write plan. Returns the JSON line.
inline std::string handle_violation(World* w, const Plan& plan, const Outcome& first, bool crashed, u64 verif_seed, u64 run_index, const std::string& outdir) {
  Outcome again = crashed ? run_forked(w, plan) : run_inproc(w, plan);
  // the gate is the fingerprint: a violation that comes back with the same fingerprint while the trace differs is the library itself behaving differently
  // from one execution to the next (e.g. hashing an address) - reported, with the fact noted; the fresh-process replay still has to reproduce it
  const bool trace_stable = crashed || again.trace == first.trace;
  if (!again.violation || again.fingerprint != first.fingerprint) {
    return std::string("{\"type\":\"nondeterminism\",\"world\":") + jstr(w->name()) + ",\"run\":" + std::to_string(run_index) +
      ",\"first\":" + jstr(first.fingerprint + " :: " + first.detail) + ",\"second\":" + jstr(again.violation ? again.fingerprint + " :: " + again.detail : "no violation") + "}";
  }
  ShrinkResult sr = shrink(w, plan, first.fingerprint, crashed);
  Outcome fin = crashed ? run_forked(w, sr.plan) : run_inproc(w, sr.plan);
  std::string path = write_plan_file(outdir, sr.plan, verif_seed, run_index, first.fingerprint, fin.detail, fin.trace, plan, sr.executions);
  return std::string("{\"type\":\"violation\",\"world\":") + jstr(w->name()) + ",\"run\":" + std::to_string(run_index) +
    ",\"fingerprint\":" + jstr(first.fingerprint) + ",\"detail\":" + jstr(fin.detail) + ",\"plan_file\":" + jstr(path) +
    ",\"steps_before\":" + std::to_string(plan.steps.size()) + ",\"steps_after\":" + std::to_string(sr.plan.steps.size()) +
    ",\"shrink_executions\":" + std::to_string(sr.executions) + ",\"crashed\":" + (crashed ? "true" : "false") + ",\"trace_stable\":" + (trace_stable ? "true" : "false") + "}";
}

// simple glob ('*' only) used for the known-findings list handed over by the orchestrator
inline bool glob_match(const std::string& pat, const std::string& str) {
  size_t p = 0, s = 0, star = std::string::npos, mark = 0;
  while (s < str.size()) {
    if (p < pat.size() && pat[p] == '*') { star = p++; mark = s; }
    else if (p < pat.size() && pat[p] == str[s]) { p++; s++; }
    else if (star != std::string::npos) { p = star + 1; s = ++mark; }
    else return false;
  }
  while (p < pat.size() && pat[p] == '*') p++;
  return p == pat.size();
}
inline std::vector<std::string>& known_patterns() { static std::vector<std::string> k; return k; }
inline bool is_known(const std::string& fp) { for (const std::string& k : known_patterns()) if (glob_match(k, fp)) return true; return false; }

inline std::string stats_json(const Stats& st) {
  return std::string("{\"runs\":") + std::to_string(st.runs) + ",\"steps\":" + std::to_string(st.steps) + ",\"nontrivial\":" + std::to_string(st.nontrivial) +
    ",\"checks\":" + std::to_string(st.checks) + ",\"faults\":" + jmap(st.faults) + ",\"probes\":" + jmap(st.probes) + "}";
}

// child: runs indices cur, cur+stride, ... < end in-process; writes protocol lines to fd
inline void child_loop(World* w, u64 verif_seed, u64 cur, u64 end, u64 stride, int tier, const std::string& outdir, int fd, u64 offset,
    double deadline_s, int samples_wanted, int max_violations) {
  FILE* out = fdopen(fd, "w");
  Stats total; int samples = 0, violations = 0; std::set<std::string> known_seen;
  std::string hpath = outdir + "/hashes." + std::string(w->name()) + "." + std::to_string(offset) + ".bin";
  FILE* hf = fopen(hpath.c_str(), "ab");
  auto t0 = std::chrono::steady_clock::now();   // wall clock is only a budget cap, never an input to a run
  for (u64 i = cur; i < end; i += stride) {
    fprintf(out, "S %llu\n", static_cast<unsigned long long>(i)); fflush(out);
    Plan p = w->generate(run_seed_for(verif_seed, w->name(), i), tier);
    p.world = w->name();
    arm_watchdog(120);
    Outcome o = run_inproc(w, p);
    disarm_watchdog();
    total.add(o.st);
    u64 rec[3] = { p.hash(), o.trace, o.nontrivial ? 1ULL : 0ULL };
    if (hf) fwrite(rec, sizeof(rec), 1, hf);
    if (o.nontrivial && samples < samples_wanted && !o.violation) {
      samples++;
      fprintf(out, "P %s\n", jstr(p.to_text()).c_str());
    }
    if (o.violation && is_known(o.fingerprint) && known_seen.count(o.fingerprint)) {
      total.probes["known_finding_recurrences"]++;     // already minimised and reported once in this worker
    } else if (o.violation) {
      const bool known = is_known(o.fingerprint); if (known) known_seen.insert(o.fingerprint);
      std::string line = handle_violation(w, p, o, false, verif_seed, i, outdir);
      fprintf(out, "V %s\n", line.c_str()); fflush(out);
      if (!known && ++violations >= max_violations) { fprintf(out, "D %llu\n", static_cast<unsigned long long>(i)); i += stride;
        fprintf(out, "E %s\n", stats_json(total).c_str()); fprintf(out, "X %llu\n", static_cast<unsigned long long>(i)); fflush(out); if (hf) fclose(hf); _exit(0); }
    }
    fprintf(out, "D %llu\n", static_cast<unsigned long long>(i));
    if ((total.runs % 64) == 0) fprintf(out, "I %s\n", stats_json(total).c_str());   // cumulative; used only if this child dies later
    if (deadline_s > 0) {
      double el = std::chrono::duration<double>(std::chrono::steady_clock::now() - t0).count();
      if (el > deadline_s) { fprintf(out, "T %llu\n", static_cast<unsigned long long>(i)); break; }
    }
  }
  if (hf) fclose(hf);
  fprintf(out, "E %s\n", stats_json(total).c_str()); fflush(out);
  _exit(0);
}

inline int cmd_run(const Args& a) {
  World* w = find_world(a.get("world"));
  if (!w) { fprintf(stderr, "unknown world %s\n", a.get("world").c_str()); return 2; }
  const u64 verif_seed = a.num("seed", 1), from = a.num("from", 0), count = a.num("count", 100), stride = a.num("stride", 1), offset = a.num("offset", 0);
  const int tier = static_cast<int>(a.num("tier", 0));
  const std::string outdir = a.get("out", ".");
  double deadline = static_cast<double>(a.num("max-seconds", 0));
  const int max_viol = static_cast<int>(a.num("max-violations", 3));
  if (!a.get("known-file").empty()) { std::istringstream ks(read_file(a.get("known-file"))); std::string ln; while (std::getline(ks, ln)) if (!ln.empty()) known_patterns().push_back(ln); }
  u64 cur = from + offset, end = from + count;
  int crashes = 0, violations = 0;
  auto t0 = std::chrono::steady_clock::now();
  while (cur < end) {
    int fds[2]; if (pipe(fds) != 0) { perror("pipe"); return 2; }
    fflush(stdout);
    double left = deadline;
    if (deadline > 0) { left = deadline - std::chrono::duration<double>(std::chrono::steady_clock::now() - t0).count(); if (left <= 0) { printf("{\"type\":\"truncated\",\"at\":%llu}\n", (unsigned long long)cur); break; } }
    pid_t pid = fork();
    if (pid == 0) { close(fds[0]); child_loop(w, verif_seed, cur, end, stride, tier, outdir, fds[1], offset, left, offset == 0 ? 3 : 0, max_viol); _exit(0); }
    close(fds[1]);
    FILE* in = fdopen(fds[0], "r");
    char* line = nullptr; size_t cap = 0; ssize_t n;
    long long started = -1, done = -1; bool ended = false, stop = false; std::string last_incremental;
    while ((n = getline(&line, &cap, in)) > 0) {
      if (line[n - 1] == '\n') line[n - 1] = 0;
      switch (line[0]) {
        case 'S': started = std::atoll(line + 2); break;
        case 'D': done = std::atoll(line + 2); break;
        case 'V': printf("%s\n", line + 2); fflush(stdout); violations++; break;
        case 'I': last_incremental = line + 2; break;
        case 'P': printf("{\"type\":\"sample\",\"plan\":%s}\n", line + 2); break;
        case 'E': printf("{\"type\":\"stats\",\"stats\":%s}\n", line + 2); ended = true; break;
        case 'T': printf("{\"type\":\"truncated\",\"at\":%s}\n", line + 2); stop = true; break;
        case 'X': stop = true; break;
      }
    }
    free(line); fclose(in);
    int status = 0; waitpid(pid, &status, 0);
    if (ended && WIFEXITED(status) && WEXITSTATUS(status) == 0) { if (stop) break; cur = end; break; }
    // the child died inside run `started`
    if (!ended && !last_incremental.empty()) printf("{\"type\":\"stats\",\"stats\":%s}\n", last_incremental.c_str());
    if (started < 0 || started == done) { fprintf(stderr, "worker child died outside a run (status %d)\n", status); printf("{\"type\":\"harness_error\",\"what\":\"child died outside a run\"}\n"); return 2; }
    crashes++;
    u64 idx = static_cast<u64>(started);
    Plan p = w->generate(run_seed_for(verif_seed, w->name(), idx), tier); p.world = w->name();
    Outcome o = run_forked(w, p);
    if (!o.violation) {
      printf("{\"type\":\"nondeterminism\",\"world\":%s,\"run\":%llu,\"first\":\"child died\",\"second\":\"no violation when re-run\"}\n", jstr(w->name()).c_str(), (unsigned long long)idx);
    } else {
      std::string l = handle_violation(w, p, o, o.crashed, verif_seed, idx, outdir);
      printf("%s\n", l.c_str()); if (!is_known(o.fingerprint)) violations++;
    }
    fflush(stdout);
    if (violations >= max_viol) break;
    cur = idx + stride;
  }
  printf("{\"type\":\"done\",\"crashes\":%d,\"violations\":%d}\n", crashes, violations);
  return 0;
}

inline Plan load_plan_file(const std::string& path, std::string* fp = nullptr) {
  std::string text = read_file(path);
  std::istringstream is(text); std::string line;
  while (std::getline(is, line)) if (line.rfind("fingerprint ", 0) == 0 && fp) { *fp = line.substr(12); break; }
  return Plan::from_text(text);
}

inline int cmd_replay(const Args& a) {
  std::string fp; Plan p = load_plan_file(a.get("plan"), &fp);
  World* w = find_world(p.world);
  if (!w) { fprintf(stderr, "unknown world %s\n", p.world.c_str()); return 2; }
  Outcome o = run_forked(w, p);
  printf("{\"type\":\"replay\",\"violation\":%s,\"fingerprint\":%s,\"expected\":%s,\"detail\":%s,\"trace\":%llu}\n", o.violation ? "true" : "false",
    jstr(o.fingerprint).c_str(), jstr(fp).c_str(), jstr(o.detail).c_str(), (unsigned long long)o.trace);
  if (!o.violation) return 0;
  return (fp.empty() || fp == o.fingerprint) ? 1 : 3;
}

// re-run a plan in-process (no fork): for gdb/valgrind on a replay
inline int cmd_exec(const Args& a) {
  Plan p = load_plan_file(a.get("plan"));
  World* w = find_world(p.world); if (!w) return 2;
  Outcome o = run_inproc(w, p);
  printf("%s %s :: %s\n", o.violation ? "VIOLATION" : "ok", o.fingerprint.c_str(), o.detail.c_str());
  return o.violation ? 1 : 0;
}

inline int cmd_gen(const Args& a) {
  World* w = find_world(a.get("world")); if (!w) return 2;
  Plan p = w->generate(run_seed_for(a.num("seed", 1), w->name(), a.num("run", 0)), static_cast<int>(a.num("tier", 0)));
  p.world = w->name();
  fputs(p.to_text().c_str(), stdout);
  return 0;
}

// determinism audit: execute runs twice in-process and print (index, planhash, trace) so that separate processes can be diffed
inline int cmd_trace(const Args& a) {
  World* w = find_world(a.get("world")); if (!w) return 2;
  const u64 verif_seed = a.num("seed", 1), from = a.num("from", 0), count = a.num("count", 100);
  const int tier = static_cast<int>(a.num("tier", 0));
  int mism = 0;
  for (u64 i = from; i < from + count; i++) {
    Plan p = w->generate(run_seed_for(verif_seed, w->name(), i), tier); p.world = w->name();
    Plan p2 = w->generate(run_seed_for(verif_seed, w->name(), i), tier); p2.world = w->name();
    Outcome o1 = run_inproc(w, p), o2 = run_inproc(w, p2);
    bool same = p.hash() == p2.hash() && o1.trace == o2.trace && o1.violation == o2.violation && o1.fingerprint == o2.fingerprint;
    if (!same) mism++;
    printf("%llu %016llx %016llx %d%s\n", (unsigned long long)i, (unsigned long long)p.hash(), (unsigned long long)o1.trace, o1.violation ? 1 : 0, same ? "" : " MISMATCH");
  }
  return mism ? 2 : 0;
}

inline int sim_main(int argc, char** argv) {
  setvbuf(stdout, nullptr, _IOLBF, 0);
  if (argc < 2) { fprintf(stderr, "usage: %s run|replay|exec|gen|trace|list --key value ...\n", argv[0]); return 2; }
  Args a; std::string cmd = argv[1];
  for (int i = 2; i + 1 < argc; i += 2) { std::string k = argv[i]; if (k.rfind("--", 0) == 0) k = k.substr(2); a.kv[k] = argv[i + 1]; }
  if (cmd == "list") { for (World* w : registry()) printf("%s\n", w->name()); return 0; }
  if (cmd == "run") return cmd_run(a);
  if (cmd == "replay") return cmd_replay(a);
  if (cmd == "exec") return cmd_exec(a);
  if (cmd == "gen") return cmd_gen(a);
  if (cmd == "trace") return cmd_trace(a);
  fprintf(stderr, "unknown command %s\n", cmd.c_str());
  return 2;
}

} // namespace sim
#endif
