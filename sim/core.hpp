// dsim core: seeded streams, plans, execution context, shrinking, supervisor.
// One integer (the run seed) decides a whole run; see DESIGN.md section 3.
#ifndef DSIM_CORE_HPP
#define DSIM_CORE_HPP

#include <cstdint>
#include <cstdio>
#include <cstdlib>
#include <cstring>
#include <string>
#include <vector>
#include <map>
#include <set>
#include <functional>
#include <sstream>
#include <stdexcept>
#include <algorithm>
#include <chrono>
#include <unistd.h>
#include <signal.h>
#include <sys/wait.h>
#include <sys/time.h>

namespace sim {

typedef uint64_t u64;
typedef int64_t i64;

// ------------------------------------------------------------------ process-wide operator new balance (defined once per binary in driver.hpp)
// Counts live blocks obtained through global operator new: memory that bypasses the user allocator (std::string buffers of string
// items, exception messages, std::function state). Used to detect leaks the tracking allocator cannot see.
extern long long g_global_new_live;
// blocks obtained through ::operator new while a TrackGlobalNew scope is open and not yet released (allocation-free bookkeeping)
extern int g_track_global_new;
extern long long g_tracked_global_live;
struct TrackGlobalNew { TrackGlobalNew() { ++g_track_global_new; } ~TrackGlobalNew() { --g_track_global_new; } };

// ------------------------------------------------------------------ randomness
inline u64 splitmix64(u64& s) {
  u64 z = (s += 0x9e3779b97f4a7c15ULL);
  z = (z ^ (z >> 30)) * 0xbf58476d1ce4e5b9ULL;
  z = (z ^ (z >> 27)) * 0x94d049bb133111ebULL;
  return z ^ (z >> 31);
}
inline u64 fnv1a(const void* p, size_t n, u64 h = 0xcbf29ce484222325ULL) {
  const unsigned char* c = static_cast<const unsigned char*>(p);
  for (size_t i = 0; i < n; i++) { h ^= c[i]; h *= 0x100000001b3ULL; }
  return h;
}
inline u64 fnv_str(const std::string& s, u64 h = 0xcbf29ce484222325ULL) { return fnv1a(s.data(), s.size(), h); }
inline u64 mix(u64 a, u64 b) { u64 s = a ^ (b + 0x9e3779b97f4a7c15ULL + (a << 6) + (a >> 2)); return splitmix64(s); }

// xoshiro256** -- all harness choices come from instances of this, seeded from the run seed and a stream tag
struct Rng {
  u64 s[4];
  Rng() { seed(1); }
  Rng(u64 seed_, const char* tag) { seed(mix(seed_, fnv_str(tag))); }
  explicit Rng(u64 seed_) { seed(seed_); }
  void seed(u64 x) { for (int i = 0; i < 4; i++) s[i] = splitmix64(x); }
  static u64 rotl(u64 x, int k) { return (x << k) | (x >> (64 - k)); }
  u64 next() {
    const u64 r = rotl(s[1] * 5, 7) * 9, t = s[1] << 17;
    s[2] ^= s[0]; s[3] ^= s[1]; s[1] ^= s[2]; s[0] ^= s[3]; s[2] ^= t; s[3] = rotl(s[3], 45);
    return r;
  }
  u64 below(u64 n) { return n == 0 ? 0 : next() % n; }            // slight modulo bias is irrelevant here
  i64 range(i64 lo, i64 hi) { return lo + static_cast<i64>(below(static_cast<u64>(hi - lo + 1))); } // inclusive
  bool chance(unsigned num, unsigned den) { return below(den) < num; }
  double unit() { return static_cast<double>(next() >> 11) * (1.0 / 9007199254740992.0); }
  template<typename T> const T& pick(const std::vector<T>& v) { return v[below(v.size())]; }
  template<typename T, size_t N> const T& pick(const T (&v)[N]) { return v[below(N)]; }
};

// ------------------------------------------------------------------ plans
struct Step {
  int kind = 0;     // world-specific opcode
  i64 a = 0, b = 0, c = 0;
  int fault = 0;    // world-specific fault kind attached to this step (0 = none)
  i64 fa = 0;       // fault argument
  bool operator==(const Step& o) const { return kind == o.kind && a == o.a && b == o.b && c == o.c && fault == o.fault && fa == o.fa; }
};

struct Plan {
  std::string world;
  u64 run_seed = 0;         // informational + seeds the library coin stream
  std::vector<i64> cfg;     // world-specific configuration vector
  std::vector<Step> steps;

  u64 hash() const {
    u64 h = fnv_str(world);
    h = fnv1a(cfg.data(), cfg.size() * sizeof(i64), h);
    for (const Step& s : steps) {
      i64 v[6] = { s.kind, s.a, s.b, s.c, s.fault, s.fa };
      h = fnv1a(v, sizeof(v), h);
    }
    return h;
  }
  std::string to_text() const {
    std::ostringstream os;
    os << "world " << world << "\n" << "seed " << run_seed << "\n" << "cfg";
    for (i64 v : cfg) os << " " << v;
    os << "\n";
    for (const Step& s : steps) os << "step " << s.kind << " " << s.a << " " << s.b << " " << s.c << " " << s.fault << " " << s.fa << "\n";
    return os.str();
  }
  static Plan from_text(const std::string& text) {
    Plan p; std::istringstream is(text); std::string line;
    while (std::getline(is, line)) {
      std::istringstream ls(line); std::string key; ls >> key;
      if (key == "world") ls >> p.world;
      else if (key == "seed") ls >> p.run_seed;
      else if (key == "cfg") { i64 v; while (ls >> v) p.cfg.push_back(v); }
      else if (key == "step") { Step s; ls >> s.kind >> s.a >> s.b >> s.c >> s.fault >> s.fa; p.steps.push_back(s); }
    }
    return p;
  }
};

// ------------------------------------------------------------------ execution context
struct Violation { std::string fingerprint; std::string detail; };

struct Stats {
  u64 runs = 0, steps = 0, nontrivial = 0, checks = 0;
  std::map<std::string, u64> faults, probes;
  void add(const Stats& o) {
    runs += o.runs; steps += o.steps; nontrivial += o.nontrivial; checks += o.checks;
    for (auto& kv : o.faults) faults[kv.first] += kv.second;
    for (auto& kv : o.probes) probes[kv.first] += kv.second;
  }
};

inline int& watchdog_seconds() { static int s = 0; return s; }
inline void rearm_watchdog() { const int sec = watchdog_seconds(); if (sec > 0) { struct itimerval it; std::memset(&it, 0, sizeof(it)); it.it_value.tv_sec = sec; setitimer(ITIMER_VIRTUAL, &it, nullptr); } }

struct Ctx {
  Stats st;
  u64 trace = 0xcbf29ce484222325ULL;
  int cur_step = -1, cur_kind = -1;
  int progress_fd = -1;          // when >= 0, the current step index and kind are written here (crash localisation)
  bool nontrivial = false;
  std::string family;            // set by the world, part of crash fingerprints

  void t(u64 v) { trace = fnv1a(&v, sizeof(v), trace); }
  void t(const std::string& s) { trace = fnv_str(s, trace); }
  void t(double d) { u64 v; std::memcpy(&v, &d, 8); t(v); }
  void probe(const char* name, u64 n = 1) { st.probes[name] += n; }
  void fault(const char* name) { st.faults[name] += 1; nontrivial = true; }
  void check() { st.checks++; }
  std::string fp_suffix;   // appended to every oracle fingerprint of this run (a run that carries a forced 2^-53 draw says so: "|+extreme_draw")
  [[noreturn]] void fail(const std::string& fingerprint, const std::string& detail) { throw Violation{fingerprint + fp_suffix, detail}; }
  void require(bool ok, const char* fingerprint, const std::string& detail = std::string()) {
    st.checks++;
    if (!ok) throw Violation{std::string(fingerprint) + fp_suffix, detail};
  }
  void begin_step(int idx, int kind) {
    cur_step = idx; cur_kind = kind; st.steps++;
    rearm_watchdog();   // the CPU budget is per step: a run is as long as its plan, a single library call sequence that never returns is the hang
    if (progress_fd >= 0) { int v[2] = { idx, kind }; ssize_t r = write(progress_fd, v, sizeof(v)); (void)r; }
  }
};

struct Outcome {
  bool violation = false;
  bool crashed = false;
  std::string fingerprint, detail;
  u64 trace = 0;
  int at_step = -1;
  Stats st;
  bool nontrivial = false;
};

// ------------------------------------------------------------------ worlds
struct World {
  virtual ~World() {}
  virtual const char* name() const = 0;
  virtual Plan generate(u64 run_seed, int tier) = 0;      // must not touch the library
  virtual void execute(const Plan& p, Ctx& ctx) = 0;       // throws Violation
  virtual const char* step_name(int kind) const { (void)kind; return "step"; }
  virtual std::string family_of(const Plan& p) const { (void)p; return name(); }
  virtual bool shrinkable() const { return true; }          // false: the oracle needs data that exists for generated plans only
  // argument simplification candidates for shrinking (optional): return simpler variants of the plan
  virtual void simplify(const Plan& p, std::vector<Plan>& out) const { (void)p; (void)out; }
};

inline std::vector<World*>& registry() { static std::vector<World*> r; return r; }
struct Register { Register(World* w) { registry().push_back(w); } };
inline World* find_world(const std::string& n) {
  for (World* w : registry()) if (n == w->name()) return w;
  return nullptr;
}

// per-step CPU watchdog (ITIMER_VIRTUAL): a non-terminating library call is turned into a process abort with exit 78
inline void watchdog_handler(int) { static const char m[] = "DSIM-WATCHDOG: step exceeded CPU budget\n"; ssize_t r = write(2, m, sizeof(m) - 1); (void)r; _exit(78); }
inline void arm_watchdog(int seconds) {
  watchdog_seconds() = seconds;
  struct sigaction sa; std::memset(&sa, 0, sizeof(sa)); sa.sa_handler = watchdog_handler; sigaction(SIGVTALRM, &sa, nullptr);
  struct itimerval it; std::memset(&it, 0, sizeof(it)); it.it_value.tv_sec = seconds; setitimer(ITIMER_VIRTUAL, &it, nullptr);
}
inline void disarm_watchdog() { watchdog_seconds() = 0; struct itimerval it; std::memset(&it, 0, sizeof(it)); setitimer(ITIMER_VIRTUAL, &it, nullptr); }

inline Outcome run_inproc(World* w, const Plan& p, int progress_fd = -1) {
  Outcome o; Ctx ctx; ctx.progress_fd = progress_fd; ctx.family = w->family_of(p);
  try {
    w->execute(p, ctx);
  } catch (const Violation& v) {
    o.violation = true; o.fingerprint = v.fingerprint; o.detail = v.detail; o.at_step = ctx.cur_step;
  } catch (const std::exception& e) {
    // worlds catch the exceptions their oracles allow; anything that escapes is an operation on a valid object that threw
    std::string what = e.what(); std::string norm;
    for (char c : what) { if (c >= '0' && c <= '9') { if (norm.empty() || norm.back() != '#') norm += '#'; } else norm += c; }
    o.violation = true; o.fingerprint = "unexpected-exception|" + ctx.family + "|" + w->step_name(ctx.cur_kind) + "|" + norm.substr(0, 80); o.detail = what; o.at_step = ctx.cur_step;
  }
  o.trace = ctx.trace; o.st = ctx.st; o.st.runs = 1; o.nontrivial = ctx.nontrivial; if (o.nontrivial) o.st.nontrivial = 1;
  return o;
}

// from a sanitizer report: "<kind>@<file>:<function>" of the first frame that lies in the library under test
inline std::string first_line_with(const std::string& txt, const char* a, const char* b) {
  std::istringstream is(txt); std::string line;
  while (std::getline(is, line)) if (line.find(a) != std::string::npos || line.find(b) != std::string::npos) return line.substr(0, 300);
  return "";
}
inline std::string crash_site(const std::string& txt) {
  std::string kind = "unknown";
  size_t k = txt.find("ERROR: AddressSanitizer: ");
  if (k != std::string::npos) { size_t e = txt.find_first_of(" \n", k + 25); kind = txt.substr(k + 25, e - (k + 25)); }
  else if ((k = txt.find("runtime error: ")) != std::string::npos) { kind = "ubsan"; }
  else if (txt.find("DSIM-WATCHDOG") != std::string::npos) kind = "hang";
  std::istringstream is(txt); std::string line;
  while (std::getline(is, line)) {
    size_t h = line.find("#"); size_t in = line.find(" in ");
    if (h == std::string::npos || in == std::string::npos) continue;
    size_t inc = line.find("/include/", in);
    if (inc == std::string::npos || line.find("/verif/") != std::string::npos || line.find("sim/") != std::string::npos) continue;
    std::string sym = line.substr(in + 4, line.rfind(' ') - (in + 4));
    // reduce the symbol to its unqualified function name: cut template arguments and parameters
    std::string flat; int depth = 0;
    for (char c : sym) { if (c == '<') depth++; else if (c == '>') depth--; else if (depth == 0) { if (c == '(') break; flat += c; } }
    size_t sp = flat.rfind(' '); if (sp != std::string::npos) flat = flat.substr(sp + 1);
    std::string file = line.substr(line.rfind('/') + 1); size_t colon = file.find(':'); if (colon != std::string::npos) file = file.substr(0, colon);
    return kind + "@" + file + ":" + flat;
  }
  return kind;
}

// run a plan in a forked child; detect sanitizer aborts, signals and watchdog exits
inline Outcome run_forked(World* w, const Plan& p, int cpu_seconds = 60) {
  int res[2], prog[2], err[2];
  if (pipe(res) != 0 || pipe(prog) != 0 || pipe(err) != 0) { perror("pipe"); exit(2); }
  fflush(stdout); fflush(stderr);
  pid_t pid = fork();
  if (pid < 0) { perror("fork"); exit(2); }
  if (pid == 0) {
    close(res[0]); close(prog[0]); close(err[0]);
    dup2(err[1], 2); close(err[1]);
    arm_watchdog(cpu_seconds);
    Outcome o;
    try { o = run_inproc(w, p, prog[1]); }
    catch (const std::exception& e) { o.violation = true; o.fingerprint = std::string("harness|uncaught|") + w->family_of(p); o.detail = e.what(); }
    std::ostringstream os;
    os << (o.violation ? 1 : 0) << "\n" << o.trace << "\n" << o.at_step << "\n" << o.fingerprint << "\n" << o.detail << "\n";
    std::string s = os.str(); ssize_t r = write(res[1], s.data(), s.size()); (void)r;
    _exit(0);
  }
  close(res[1]); close(prog[1]); close(err[1]);
  std::string out, errtxt; char buf[4096]; ssize_t n;
  int last[2] = { -1, -1 };
  // drain progress first (small records; the pipe never fills beyond 64 KiB for plans we use, but drain both to be safe)
  fd_set fds; bool res_open = true, prog_open = true, err_open = true;
  while (res_open || prog_open || err_open) {
    FD_ZERO(&fds); int mx = 0;
    if (err_open) { FD_SET(err[0], &fds); mx = std::max(mx, err[0]); }
    if (res_open) { FD_SET(res[0], &fds); mx = std::max(mx, res[0]); }
    if (prog_open) { FD_SET(prog[0], &fds); mx = std::max(mx, prog[0]); }
    if (select(mx + 1, &fds, nullptr, nullptr, nullptr) < 0) { if (errno == EINTR) continue; break; }
    if (err_open && FD_ISSET(err[0], &fds)) { n = read(err[0], buf, sizeof(buf)); if (n <= 0) err_open = false; else if (errtxt.size() < (1u << 20)) errtxt.append(buf, n); }
    if (res_open && FD_ISSET(res[0], &fds)) { n = read(res[0], buf, sizeof(buf)); if (n <= 0) res_open = false; else out.append(buf, n); }
    if (prog_open && FD_ISSET(prog[0], &fds)) {
      n = read(prog[0], buf, sizeof(buf) - (sizeof(buf) % 8));
      if (n <= 0) prog_open = false;
      else if (n >= 8) std::memcpy(last, buf + (n / 8 - 1) * 8, 8);
    }
  }
  close(res[0]); close(prog[0]); close(err[0]);
  int status = 0; waitpid(pid, &status, 0);
  Outcome o;
  if (WIFEXITED(status) && WEXITSTATUS(status) == 0 && !out.empty()) {
    std::istringstream is(out); std::string line;
    std::getline(is, line); o.violation = line == "1";
    std::getline(is, line); o.trace = std::strtoull(line.c_str(), nullptr, 10);
    std::getline(is, line); o.at_step = std::atoi(line.c_str());
    std::getline(is, o.fingerprint);
    std::string rest, l2; while (std::getline(is, l2)) { if (!rest.empty()) rest += " "; rest += l2; }
    o.detail = rest;
    return o;
  }
  o.violation = true; o.crashed = true; o.at_step = last[0];
  std::string how;
  if (WIFSIGNALED(status)) how = "signal" + std::to_string(WTERMSIG(status));
  else if (WIFEXITED(status) && WEXITSTATUS(status) == 77) how = "sanitizer";
  else if (WIFEXITED(status) && WEXITSTATUS(status) == 78) how = "hang";
  else how = "exit" + std::to_string(WIFEXITED(status) ? WEXITSTATUS(status) : -1);
  std::string site = crash_site(errtxt);
  o.fingerprint = "crash|" + how + "|" + w->family_of(p) + "|" + (last[1] >= 0 ? w->step_name(last[1]) : "start") + "|" + site;
  o.detail = "process died at step " + std::to_string(last[0]) + "; " + first_line_with(errtxt, "ERROR: AddressSanitizer", "runtime error:");
  return o;
}

// ------------------------------------------------------------------ shrinking (ddmin over steps, then argument simplification)
struct ShrinkResult { Plan plan; int executions = 0; };

inline ShrinkResult shrink(World* w, const Plan& failing, const std::string& fingerprint, bool forked, int max_exec = 600) {
  ShrinkResult r; r.plan = failing;
  if (!w->shrinkable()) return r;
  auto fails = [&](const Plan& cand) -> bool {
    if (r.executions >= max_exec) return false;
    r.executions++;
    Outcome o = forked ? run_forked(w, cand) : run_inproc(w, cand);
    return o.violation && o.fingerprint == fingerprint;
  };
  // ddmin on steps
  size_t chunk = std::max<size_t>(1, r.plan.steps.size() / 2);
  while (chunk >= 1 && !r.plan.steps.empty()) {
    bool removed_any = false;
    for (size_t start = 0; start < r.plan.steps.size();) {
      Plan cand = r.plan;
      size_t end = std::min(cand.steps.size(), start + chunk);
      cand.steps.erase(cand.steps.begin() + start, cand.steps.begin() + end);
      if (fails(cand)) { r.plan = cand; removed_any = true; }
      else start += chunk;
    }
    if (chunk == 1 && !removed_any) break;
    if (!removed_any) chunk /= 2; else chunk = std::max<size_t>(1, std::min(chunk, r.plan.steps.size() / 2));
    if (r.executions >= max_exec) break;
  }
  // argument simplification: drop faults, zero arguments, world-specific candidates; repeat to a fixpoint (bounded)
  for (int round = 0; round < 3 && r.executions < max_exec; round++) {
    bool changed = false;
    for (size_t i = 0; i < r.plan.steps.size(); i++) {
      Step orig = r.plan.steps[i];
      Step cands[6] = { orig, orig, orig, orig, orig, orig };
      cands[0].fault = 0; cands[0].fa = 0; cands[1].a = 0; cands[2].b = 0; cands[3].c = 0; cands[4].a = orig.a / 2; cands[5].fa = orig.fa / 2;
      for (int j = 0; j < 6; j++) {
        if (cands[j] == r.plan.steps[i]) continue;
        Plan cand = r.plan; cand.steps[i] = cands[j];
        if (fails(cand)) { r.plan = cand; changed = true; }
      }
    }
    std::vector<Plan> more; w->simplify(r.plan, more);
    for (const Plan& cand : more) if (fails(cand)) { r.plan = cand; changed = true; break; }
    if (!changed) break;
  }
  return r;
}

// ------------------------------------------------------------------ json helpers (output only)
inline std::string jstr(const std::string& s) {
  std::string o = "\"";
  for (unsigned char c : s) {
    if (c == '"') o += "\\\""; else if (c == '\\') o += "\\\\"; else if (c == '\n') o += "\\n";
    else if (c < 0x20 || c >= 0x7f) { char b[8]; snprintf(b, sizeof(b), "\\u%04x", c); o += b; }
    else o += static_cast<char>(c);
  }
  return o + "\"";
}
inline std::string jmap(const std::map<std::string, u64>& m) {
  std::string o = "{"; bool first = true;
  for (auto& kv : m) { if (!first) o += ","; first = false; o += jstr(kv.first) + ":" + std::to_string(kv.second); }
  return o + "}";
}

inline u64 run_seed_for(u64 verif_seed, const std::string& world, u64 index) {
  u64 s = verif_seed ^ fnv_str(world); u64 a = splitmix64(s); s = a ^ (index * 0x9e3779b97f4a7c15ULL);
  return splitmix64(s);
}

} // namespace sim
#endif
