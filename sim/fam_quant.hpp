// adapters: kll, req, classic quantiles (over float / string / tracked item), t-digest
#ifndef DSIM_FAM_QUANT_HPP
#define DSIM_FAM_QUANT_HPP
#include "fam_common.hpp"
#include <kll_sketch.hpp>
#include <req_sketch.hpp>
#include <quantiles_sketch.hpp>
#include <tdigest.hpp>

namespace fam {
namespace ds = datasketches;

template<typename T> struct NameOf;
template<> struct NameOf<float> { static const char* s() { return "float"; } };
template<> struct NameOf<double> { static const char* s() { return "double"; } };
template<> struct NameOf<int64_t> { static const char* s() { return "i64"; } };
template<> struct NameOf<std::string> { static const char* s() { return "string"; } };
template<> struct NameOf<sim::titem> { static const char* s() { return "titem"; } };

// observation shared by the three comparison-based quantile sketches
template<typename T, typename S> std::string obs_quant(const S& s, bool det_only) {
  std::string o = "k=" + std::to_string(s.get_k()) + " n=" + std::to_string(s.get_n()) + " empty=" + std::to_string(s.is_empty()) +
    " retained=" + std::to_string(s.get_num_retained()) + " est=" + std::to_string(s.is_estimation_mode());
  if (s.is_empty()) return o;
  o += " min=" + Item<T>::str(s.get_min_item()) + " max=" + Item<T>::str(s.get_max_item());
  u64 wsum = 0; std::vector<std::pair<std::string, u64>> e;
  for (auto it = s.begin(); it != s.end(); ++it) { wsum += (*it).second; e.push_back(std::make_pair(Item<T>::str((*it).first), (*it).second)); }
  o += " wsum=" + std::to_string(wsum) + " iter=" + std::to_string(e.size());
  if (det_only) return o;
  std::sort(e.begin(), e.end());
  o += " items=[";
  for (auto& kv : e) o += kv.first + "*" + std::to_string(kv.second) + ",";
  o += "]";
  static const double ranks[] = { 0.0, 0.1, 0.5, 0.9, 1.0 };
  for (double r : ranks) o += " q" + d2s(r) + "=" + Item<T>::str(s.get_quantile(r, true)) + "/" + Item<T>::str(s.get_quantile(r, false));
  o += " rmin=" + d2s(s.get_rank(s.get_min_item(), true)) + " rmax=" + d2s(s.get_rank(s.get_max_item(), false));
  return o;
}

// ------------------------------------------------------------------ kll / req / quantiles share one adapter shape
template<typename T, typename S> struct QSkBase: Sk {
  typedef sim::talloc<T> A;
  typedef typename Item<T>::serde SD;
  typedef typename Item<T>::less L;
  std::unique_ptr<S> s;
  explicit QSkBase(S&& s_): s(new S(std::move(s_))) {}
  void copy_assign(const Sk& o) override { *s = *static_cast<const QSkBase&>(o).s; }
  void move_assign(Sk& o) override { *s = std::move(*static_cast<QSkBase&>(o).s); }
  void feed(i64 start, i64 count, i64 pattern) override { for (i64 j = 0; j < count; j++) s->update(Item<T>::make(feed_value(start, j, count, pattern))); }
  void merge(const Sk& o) override { s->merge(*static_cast<const QSkBase&>(o).s); }
  void merge_move(Sk& o) override { s->merge(std::move(*static_cast<QSkBase&>(o).s)); }
  std::string obs(bool det_only) const override { return obs_quant<T>(*s, det_only); }
  bool deterministic() const override { return false; }
  Bytes ser(int, unsigned h) const override { return to_bytes(s->serialize(h, SD())); }
  void ser_os(int, std::ostream& os) const override { s->serialize(os, SD()); }
  size_t advertised_size(int) const override { return s->get_serialized_size_bytes(SD()); }
};

template<typename T> struct KllSk: QSkBase<T, ds::kll_sketch<T, typename Item<T>::less, sim::talloc<T>>> {
  typedef ds::kll_sketch<T, typename Item<T>::less, sim::talloc<T>> S;
  typedef QSkBase<T, S> B; typedef typename B::SD SD; typedef typename B::L L; typedef typename B::A A;
  explicit KllSk(S&& s_): B(std::move(s_)) {}
  // some batches arrive as a sketch of a smaller k (a producer configured more coarsely): the receiver's min_k drops below its k, which its images must carry
  void feed(i64 start, i64 count, i64 pattern) override {
    if ((pattern & 0x30) == 0x30 && count >= 16 && this->s->get_k() >= 16) { S tmp(static_cast<uint16_t>(std::max<int>(8, this->s->get_k() / 2)), L(), A(ARENA)); for (i64 j = 0; j < count; j++) tmp.update(Item<T>::make(feed_value(start, j, count, pattern))); this->s->merge(tmp); }
    else B::feed(start, count, pattern);
  }
  std::string obs(bool det_only) const override { return B::obs(det_only) + " nre=" + d2s(this->s->get_normalized_rank_error(false)) + "/" + d2s(this->s->get_normalized_rank_error(true)); }
  const char* fam() const override { static std::string n = std::string("kll<") + NameOf<T>::s() + ">"; return n.c_str(); }
  Sk* clone() const override { return new KllSk(S(*this->s)); }
  Sk* move_out() override { return new KllSk(S(std::move(*this->s))); }
  Sk* de(int, const uint8_t* p, size_t n) const override { return new KllSk(S::deserialize(p, n, SD(), L(), A(ARENA))); }
  Sk* de_is(int, std::istream& is) const override { return new KllSk(S::deserialize(is, SD(), L(), A(ARENA))); }
  size_t max_size(int) const override { return max_impl<T>(); }
  template<typename TT, typename std::enable_if<std::is_arithmetic<TT>::value, int>::type = 0> size_t max_impl() const { return S::get_max_serialized_size_bytes(this->s->get_k(), this->s->get_n()); }
  template<typename TT, typename std::enable_if<!std::is_arithmetic<TT>::value, int>::type = 0> size_t max_impl() const { return S::get_max_serialized_size_bytes(this->s->get_k(), this->s->get_n(), 64); }
};
template<typename T> struct KllFamily: Family {
  const char* name() const override { static std::string n = std::string("kll<") + NameOf<T>::s() + ">"; return n.c_str(); }
  int cfg_len() const override { return 1; }
  void gen_cfg(sim::Rng& r, std::vector<i64>& cfg, int) const override { static const int ks[] = { 8, 8, 9, 12, 20, 33, 200 }; cfg.push_back(r.pick(ks)); }
  Sk* make(const i64* cfg) const override { typedef KllSk<T> K; return new K(typename K::S(static_cast<uint16_t>(cfg[0]), typename K::L(), typename K::A(ARENA))); }
};

template<typename T> struct ReqSk: QSkBase<T, ds::req_sketch<T, typename Item<T>::less, sim::talloc<T>>> {
  typedef ds::req_sketch<T, typename Item<T>::less, sim::talloc<T>> S;
  typedef QSkBase<T, S> B; typedef typename B::SD SD; typedef typename B::L L; typedef typename B::A A;
  explicit ReqSk(S&& s_): B(std::move(s_)) {}
  const char* fam() const override { static std::string n = std::string("req<") + NameOf<T>::s() + ">"; return n.c_str(); }
  Sk* clone() const override { return new ReqSk(S(*this->s)); }
  Sk* move_out() override { return new ReqSk(S(std::move(*this->s))); }
  void merge(const Sk& o) override { const ReqSk& r = static_cast<const ReqSk&>(o); if (r.s->is_HRA() != this->s->is_HRA()) return; this->s->merge(*r.s); }
  void merge_move(Sk& o) override { ReqSk& r = static_cast<ReqSk&>(o); if (r.s->is_HRA() != this->s->is_HRA()) return; this->s->merge(std::move(*r.s)); }
  std::string obs(bool det_only) const override { return "hra=" + std::to_string(this->s->is_HRA()) + " " + obs_quant<T>(*this->s, det_only); }
  Sk* de(int, const uint8_t* p, size_t n) const override { return new ReqSk(S::deserialize(p, n, SD(), L(), A(ARENA))); }
  Sk* de_is(int, std::istream& is) const override { return new ReqSk(S::deserialize(is, SD(), L(), A(ARENA))); }
};
template<typename T> struct ReqFamily: Family {
  const char* name() const override { static std::string n = std::string("req<") + NameOf<T>::s() + ">"; return n.c_str(); }
  int cfg_len() const override { return 2; }
  void gen_cfg(sim::Rng& r, std::vector<i64>& cfg, int) const override { static const int ks[] = { 4, 4, 6, 8, 12, 50 }; cfg.push_back(r.pick(ks)); cfg.push_back(r.below(2)); }
  Sk* make(const i64* cfg) const override { typedef ReqSk<T> K; return new K(typename K::S(static_cast<uint16_t>(cfg[0]), cfg[1] != 0, typename K::L(), typename K::A(ARENA))); }
};

template<typename T> struct QuantSk: QSkBase<T, ds::quantiles_sketch<T, typename Item<T>::less, sim::talloc<T>>> {
  typedef ds::quantiles_sketch<T, typename Item<T>::less, sim::talloc<T>> S;
  typedef QSkBase<T, S> B; typedef typename B::SD SD; typedef typename B::L L; typedef typename B::A A;
  explicit QuantSk(S&& s_): B(std::move(s_)) {}
  const char* fam() const override { static std::string n = std::string("quantiles<") + NameOf<T>::s() + ">"; return n.c_str(); }
  Sk* clone() const override { return new QuantSk(S(*this->s)); }
  Sk* move_out() override { return new QuantSk(S(std::move(*this->s))); }
  Sk* de(int, const uint8_t* p, size_t n) const override { return new QuantSk(S::deserialize(p, n, SD(), L(), A(ARENA))); }
  Sk* de_is(int, std::istream& is) const override { return new QuantSk(S::deserialize(is, SD(), L(), A(ARENA))); }
};
template<typename T> struct QuantFamily: Family {
  const char* name() const override { static std::string n = std::string("quantiles<") + NameOf<T>::s() + ">"; return n.c_str(); }
  int cfg_len() const override { return 1; }
  void gen_cfg(sim::Rng& r, std::vector<i64>& cfg, int) const override { static const int ks[] = { 2, 4, 4, 8, 16, 128 }; cfg.push_back(r.pick(ks)); }
  Sk* make(const i64* cfg) const override { typedef QuantSk<T> K; return new K(typename K::S(static_cast<uint16_t>(cfg[0]), typename K::L(), typename K::A(ARENA))); }
};

// ------------------------------------------------------------------ t-digest
template<typename T> struct TdSk: Sk {
  typedef sim::talloc<T> A;
  typedef ds::tdigest<T, A> S;
  std::unique_ptr<S> s;
  explicit TdSk(S&& s_): s(new S(std::move(s_))) {}
  const char* fam() const override { static std::string n = std::string("tdigest<") + NameOf<T>::s() + ">"; return n.c_str(); }
  Sk* clone() const override { return new TdSk(S(*s)); }
  Sk* move_out() override { return new TdSk(S(std::move(*s))); }
  void copy_assign(const Sk& o) override { *s = *static_cast<const TdSk&>(o).s; }
  void move_assign(Sk& o) override { *s = std::move(*static_cast<TdSk&>(o).s); }
  void feed(i64 start, i64 count, i64 pattern) override { for (i64 j = 0; j < count; j++) s->update(static_cast<T>(feed_value(start, j, count, pattern)) / static_cast<T>(4)); }
  void merge(const Sk& o) override { s->merge(*static_cast<const TdSk&>(o).s); }
  void merge_move(Sk& o) override { s->merge(*static_cast<TdSk&>(o).s); }
  // queries compress (lazily repaired state); observation therefore works on a copy so that observing never changes the observed
  std::string obs(bool) const override {
    S c(*s);
    std::string o = "k=" + std::to_string(c.get_k()) + " empty=" + std::to_string(c.is_empty()) + " w=" + std::to_string(c.get_total_weight());
    if (c.is_empty()) return o;
    o += " min=" + d2s(c.get_min_value()) + " max=" + d2s(c.get_max_value());
    static const double ranks[] = { 0.0, 0.01, 0.25, 0.5, 0.75, 0.99, 1.0 };
    for (double r : ranks) o += " q=" + d2s(c.get_quantile(r));
    o += " r=" + d2s(c.get_rank(c.get_min_value())) + "," + d2s(c.get_rank(c.get_max_value())) + "," + d2s(c.get_rank((c.get_min_value() + c.get_max_value()) / 2));
    return o;
  }
  bool continue_is_exact(int v) const override { return !(v == 1 && s->get_total_weight() == 1); }
  std::string obs_stable() const override { S c(*s); std::string o = "k=" + std::to_string(c.get_k()) + " empty=" + std::to_string(c.is_empty()) + " w=" + std::to_string(c.get_total_weight()); if (!c.is_empty()) o += " min=" + d2s(c.get_min_value()) + " max=" + d2s(c.get_max_value()); return o; }
  int n_variants() const override { return 2; }
  Bytes ser(int v, unsigned h) const override { return to_bytes(s->serialize(h, v == 1)); }
  void ser_os(int v, std::ostream& os) const override { s->serialize(os, v == 1); }
  Sk* de(int, const uint8_t* p, size_t n) const override { return new TdSk(S::deserialize(p, n, A(ARENA))); }
  Sk* de_is(int, std::istream& is) const override { return new TdSk(S::deserialize(is, A(ARENA))); }
  size_t advertised_size(int v) const override { return s->get_serialized_size_bytes(v == 1); }
};
template<typename T> struct TdFamily: Family {
  const char* name() const override { static std::string n = std::string("tdigest<") + NameOf<T>::s() + ">"; return n.c_str(); }
  int cfg_len() const override { return 1; }
  int n_variants() const override { return 2; }
  void gen_cfg(sim::Rng& r, std::vector<i64>& cfg, int) const override { static const int ks[] = { 10, 10, 20, 50, 100, 200 }; cfg.push_back(r.pick(ks)); }
  Sk* make(const i64* cfg) const override { return new TdSk<T>(typename TdSk<T>::S(static_cast<uint16_t>(cfg[0]), typename TdSk<T>::A(ARENA))); }
};

inline void register_quant() {
  static KllFamily<float> kf; static KllFamily<std::string> ks; static KllFamily<sim::titem> kt;
  static ReqFamily<float> rf; static ReqFamily<std::string> rs; static ReqFamily<sim::titem> rt;
  static QuantFamily<float> qf; static QuantFamily<std::string> qs; static QuantFamily<sim::titem> qt;
  static TdFamily<double> td; static TdFamily<float> tf;
  Family* all[] = { &kf, &ks, &kt, &rf, &rs, &rt, &qf, &qs, &qt, &td, &tf };
  for (Family* f : all) families().push_back(f);
}

} // namespace fam
#endif
