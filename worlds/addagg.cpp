// world `addagg` (+ `coin` parts): additive sketches under merge trees, restore points and owned randomness.
// C12 frequent items, C14 count-min, C16 var_opt, C17 t-digest, C18 ebpps, C20 density.
#include "../sim/driver.hpp"
#include "../sim/seams.hpp"
#include "../sim/fam_common.hpp"
#include <frequent_items_sketch.hpp>
#include <count_min.hpp>
#include <var_opt_sketch.hpp>
#include <var_opt_union.hpp>
#include <ebpps_sketch.hpp>
#include <tdigest.hpp>
#include <density_sketch.hpp>
#include <cmath>

using namespace sim;
namespace ds = datasketches;
using fam::Item;

namespace {
bool close(double a, double b, double rel) { return a == b || std::fabs(a - b) <= rel * std::max(std::fabs(a), std::fabs(b)); }
enum { A_BATCH = 1, A_MERGE = 2, A_SERDE = 3, A_QUERY = 4, A_REFUSED = 5, A_RESET = 6, A_COPY = 7, A_NAN = 8, A_COMPRESS = 9, A_UNION = 10, A_ALLOCFAIL = 11, A_PLACED = 12 };
const char* a_step_name(int k) { static const char* n[] = { "?", "batch", "merge", "serde", "query", "refused_op", "reset", "copy", "nan", "compress", "union", "alloc_fail", "placed_purge" }; return (k >= 1 && k <= 12) ? n[k] : "step"; }

// restore through the stream reader (chunked refills); the reader must take exactly the image
template<typename V, typename De> auto restore_stream(Ctx& ctx, const V& b, i64 salt, const char* prop, De de) -> decltype(de(std::declval<std::istream&>())) {
  static const size_t chunks[] = { 1, 3, 7, 64, 4096 };
  SimFileBuf fb(reinterpret_cast<const uint8_t*>(b.data()), b.size(), 0, chunks[static_cast<size_t>(salt >> 2) % 5], static_cast<size_t>(-1), static_cast<size_t>(-1)); std::istream is(&fb);
  auto r = de(is);
  if (fb.consumed() != b.size()) ctx.fail(std::string(prop) + "|stream-reader-consumed-wrong-length", std::to_string(fb.consumed()) + " of " + std::to_string(b.size()));
  ctx.fault("chunk"); return r;
}

Plan gen_generic(u64 run_seed, int tier, std::vector<i64> cfg, int slots, const std::vector<std::pair<int, int>>& mix, i64 max_count) {
  Plan p; p.run_seed = run_seed; p.cfg = cfg; Rng rp(run_seed, "plan");
  int total = 0; for (auto& m : mix) total += m.second;
  int n = static_cast<int>(rp.range(3, tier ? 40 : 18));
  for (int i = 0; i < n; i++) {
    Step s; int roll = static_cast<int>(rp.below(static_cast<u64>(total)));
    for (auto& m : mix) { if (roll < m.second) { s.kind = m.first; break; } roll -= m.second; }
    s.a = static_cast<i64>(rp.below(static_cast<u64>(slots))); s.b = static_cast<i64>(rp.below(3000));
    static const i64 cnt[] = { 0, 1, 2, 5, 9, 17, 40, 100, 250, 600, 1500, 4000 }; i64 c = std::min(rp.pick(cnt), max_count);
    s.c = c * 64 + static_cast<i64>(rp.below(64));
    if (s.kind == A_MERGE || s.kind == A_COPY || s.kind == A_UNION) { s.b = static_cast<i64>(rp.below(static_cast<u64>(slots))); s.c = static_cast<i64>(rp.below(64)); }
    p.steps.push_back(s);
  }
  return p;
}

// ================================================================== C12 frequent items
template<typename T, typename W> struct FiExec {
  typedef ds::frequent_items_sketch<T, W, std::hash<T>, std::equal_to<T>, talloc<T>> S;
  // weights are kept in quarters: the floating-point weight type is fed multiples of 1/4 (exact in a double, so are medians and sums), integer types whole numbers
  static const bool FRACTIONAL = std::is_floating_point<W>::value; static const u64 SCALE = FRACTIONAL ? 4 : 1;
  static W fromq(u64 q) { return FRACTIONAL ? static_cast<W>(static_cast<double>(q) / 4.0) : static_cast<W>(q); }
  static u64 toq(W x) { return FRACTIONAL ? static_cast<u64>(std::llround(static_cast<double>(x) * 4.0)) : static_cast<u64>(x); }
  struct Node { std::unique_ptr<S> sk; std::map<i64, u64> w; i64 lg_max = 0, lg_lo = 0, lg_hi = 0; };   // lg_max: the configuration this object must report (copy assignment brings the source's along); lg_lo / lg_hi: smallest / largest map size among everything merged into it
  Ctx& ctx; const Plan& p; std::string fam;
  FiExec(Ctx& c, const Plan& pl, const char* f): ctx(c), p(pl), fam(f) {}
  std::string fp(const char* cls) const { return "C12|" + fam + "|" + cls; }
  S make(i64 lg_max) const { return S(static_cast<uint8_t>(lg_max), static_cast<uint8_t>(std::min<i64>(p.cfg[2], lg_max)), std::equal_to<T>(), talloc<T>(1)); }
  i64 lg_of(size_t node) const { return node == 2 ? std::max<i64>(3, p.cfg[1] + (p.cfg[1] >= 6 ? -2 : 2)) : p.cfg[1]; }   // the third object has another maximum map size
  static i64 item_of(i64 start, i64 j, i64 pattern) {   // skewed, uniform, heavy-last / heavy-first orders
    switch (pattern & 3) { case 0: { u64 s = static_cast<u64>(start * 131 + j); u64 r = splitmix64(s); int z = 0; while ((r & 1) && z < 10) { r >>= 1; z++; } return z * 7 + static_cast<i64>(r % 3); }   // geometric: few heavy items
      case 1: { u64 s = static_cast<u64>(start * 17 + j); return static_cast<i64>(splitmix64(s) % 400); }
      case 2: return j;     // all distinct, weight-1 flood forcing purges
      default: return start % 50; }
  }
  // adversarial stream (integer items only, where std::hash is the identity and the slot of a key is fmix64(key) & mask): a fresh sketch that starts at its
  // maximum map size receives exactly one key per home slot, 3/4 of the slots plus one, so that the last insert triggers the first purge. One quarter of the
  // table (rotated by the step argument) holds light counters only; of the rest half is heavy, first or second half. Whatever the placement, the purge
  // takes the median of all counters, so every clause - the epsilon clause in particular - must hold afterwards.
  template<typename U = T> typename std::enable_if<!std::is_same<U, int64_t>::value>::type placed_purge(Node&, i64) {}
  template<typename U = T> typename std::enable_if<std::is_same<U, int64_t>::value>::type placed_purge(Node& n, i64 arg) {
    if (std::hash<int64_t>()(123456789) != 123456789u) { ctx.probe("std_hash_not_identity"); return; }
    auto fmix = [](u64 k) { k ^= k >> 33; k *= 0xff51afd7ed558ccdULL; k ^= k >> 33; k *= 0xc4ceb9fe1a85ec53ULL; k ^= k >> 33; return k; };
    const uint32_t size = 1u << n.lg_max, mask = size - 1, cnt = size / 4 * 3 + 1;
    std::vector<i64> key_of(size, 0); std::vector<bool> have(size, false); uint32_t found = 0;
    for (u64 k = 1; found < size; k++) { const uint32_t sl = static_cast<uint32_t>(fmix(k) & mask); if (!have[sl]) { have[sl] = true; key_of[sl] = static_cast<i64>(k); found++; } }
    n.sk.reset(new S(static_cast<uint8_t>(n.lg_max), static_cast<uint8_t>(n.lg_max), std::equal_to<T>(), talloc<T>(1))); n.w.clear(); n.lg_lo = n.lg_hi = n.lg_max;
    const uint32_t rot = static_cast<uint32_t>(arg & 3) * (size / 4), num_top = size - cnt, num_low = cnt - num_top, num_low_light = num_low / 2; const bool heavy_first = ((arg >> 2) & 1) != 0;
    const u64 heavy = 1000000, light = 1;
    for (uint32_t sl = cnt; sl < size; sl++) { const i64 key = key_of[(sl + rot) & mask]; n.sk->update(key, fromq(light)); n.w[key] += light; }
    for (uint32_t j = 0; j < num_low; j++) { const i64 key = key_of[(j + rot) & mask]; const bool is_light = heavy_first ? j >= num_low - num_low_light : j < num_low_light; const u64 wt = is_light ? light : heavy; n.sk->update(key, fromq(wt)); n.w[key] += wt; }
    ctx.probe("placed_purge"); ctx.nontrivial = true;
  }
  void check(Node& n, const char* after) {
    const S& s = *n.sk; const std::string w = std::string(" after ") + after;
    u64 total = 0; for (auto& kv : n.w) total += kv.second;
    ctx.require(toq(s.get_total_weight()) == total, fp("total-weight").c_str(), std::to_string(s.get_total_weight()) + " vs " + std::to_string(total) + w);
    const u64 maxerr = toq(s.get_maximum_error());
    ctx.require(s.get_epsilon() == S::get_epsilon(static_cast<uint8_t>(n.lg_max)), fp("epsilon-not-that-of-the-configured-map-size").c_str(), hexd(s.get_epsilon()) + " vs " + hexd(S::get_epsilon(static_cast<uint8_t>(n.lg_max))) + " for lg_max " + std::to_string(n.lg_max) + w);
    std::vector<i64> probe_items; for (auto& kv : n.w) probe_items.push_back(kv.first); for (i64 x = 0; x < 16; x++) probe_items.push_back(1000000 + x);
    for (i64 x : probe_items) {
      const T item = Item<T>::make(x); auto it = n.w.find(x); const u64 truth = it == n.w.end() ? 0 : it->second;
      const u64 lb = toq(s.get_lower_bound(item)), ub = toq(s.get_upper_bound(item)), est = toq(s.get_estimate(item));
      if (lb > truth) ctx.fail(fp("lower-bound-above-true-weight"), "item " + std::to_string(x) + " lb=" + std::to_string(lb) + " true=" + std::to_string(truth) + w);
      if (ub < truth) ctx.fail(fp("upper-bound-below-true-weight"), "item " + std::to_string(x) + " ub=" + std::to_string(ub) + " true=" + std::to_string(truth) + w);
      ctx.require(lb <= est && est <= ub, fp("estimate-outside-bounds").c_str(), "item " + std::to_string(x) + w);
      ctx.require(ub - lb == maxerr, fp("ub-minus-lb-not-max-error").c_str(), "item " + std::to_string(x) + " ub-lb=" + std::to_string(ub - lb) + " max_error=" + std::to_string(maxerr) + w);
    }
    // the purge median is exact while the map is no larger than the sample size
    // after merges the error is the sum of the parts' errors, each within the epsilon of its own map size: the bound that follows is the epsilon of the smallest map merged in
    if (0.75 * static_cast<double>(1ULL << n.lg_hi) <= 1024) ctx.require(static_cast<double>(maxerr) <= S::get_epsilon(static_cast<uint8_t>(n.lg_lo)) * static_cast<double>(total), fp("max-error-above-epsilon-times-weight").c_str(), std::to_string(maxerr) + " > " + hexd(s.get_epsilon()) + "*" + std::to_string(total) + w);
    if (maxerr > 0) ctx.probe("fi_purged");
  }
  void query(Node& n, i64 sel) {
    const S& s = *n.sk; std::vector<u64> ths = { 0, toq(s.get_maximum_error()) };
    std::vector<u64> ws; for (auto& kv : n.w) ws.push_back(kv.second); std::sort(ws.begin(), ws.end());
    if (!ws.empty()) { u64 t = ws[static_cast<size_t>(sel) % ws.size()]; ths.push_back(t); ths.push_back(t + 1); if (t) ths.push_back(t - 1); ths.push_back(ws.back()); }
    for (u64 t0 : ths) {
      // the guarantee only exists at or above the maximum error: an untracked item may weigh up to that much and cannot be listed
      const u64 t = std::max<u64>(t0, toq(s.get_maximum_error()));
      auto nfn = s.get_frequent_items(ds::NO_FALSE_NEGATIVES, fromq(t)); auto nfp = s.get_frequent_items(ds::NO_FALSE_POSITIVES, fromq(t));
      std::set<std::string> in_nfn; W prev = 0; bool first = true;
      for (auto& r : nfn) { in_nfn.insert(Item<T>::str(r.get_item())); if (!first) ctx.require(r.get_estimate() <= prev, fp("rows-not-sorted-descending").c_str(), ""); prev = r.get_estimate(); first = false; }
      for (auto& kv : n.w) if (kv.second > t) ctx.require(in_nfn.count(Item<T>::str(Item<T>::make(kv.first))) != 0, fp("no-false-negatives-misses-item").c_str(), "item " + std::to_string(kv.first) + " weight " + std::to_string(kv.second) + " threshold " + std::to_string(t));
      // thresholds below the maximum error: an item heavier than max(threshold, maximum error) is necessarily tracked with an upper bound above the
      // threshold, so it must still be listed (a threshold of 0 or 1 after a purge is the ordinary "give me everything you have" call)
      if (t0 < t) { auto low = s.get_frequent_items(ds::NO_FALSE_NEGATIVES, fromq(t0)); std::set<std::string> in_low; for (auto& r : low) in_low.insert(Item<T>::str(r.get_item()));
        for (auto& kv : n.w) if (kv.second > t) ctx.require(in_low.count(Item<T>::str(Item<T>::make(kv.first))) != 0, fp("no-false-negatives-misses-item-at-low-threshold").c_str(), "item " + std::to_string(kv.first) + " weight " + std::to_string(kv.second) + " threshold " + std::to_string(t0) + " maximum error " + std::to_string(t));
        ctx.probe("threshold_below_maximum_error"); }
      first = true;
      for (auto& r : nfp) {
        if (!first) ctx.require(r.get_estimate() <= prev, fp("rows-not-sorted-descending").c_str(), ""); prev = r.get_estimate(); first = false;
        // find the true weight by matching the printed item
        bool ok = false; for (auto& kv : n.w) if (Item<T>::str(Item<T>::make(kv.first)) == Item<T>::str(r.get_item())) { ok = kv.second > t; break; }
        ctx.require(ok, fp("no-false-positives-returns-light-item").c_str(), Item<T>::str(r.get_item()) + " threshold " + std::to_string(t));
      }
    }
    ctx.fault("interleaved_read");
  }
  void run() {
    std::vector<Node> nodes(3); for (size_t i = 0; i < nodes.size(); i++) { nodes[i].lg_max = nodes[i].lg_lo = nodes[i].lg_hi = lg_of(i); nodes[i].sk.reset(new S(make(nodes[i].lg_max))); }
    int idx = 0;
    for (const Step& s : p.steps) {
      ctx.begin_step(idx++, s.kind);
      Node& n = nodes[static_cast<size_t>(s.a) % nodes.size()];
      switch (s.kind) {
        case A_BATCH: { const i64 count = s.c / 64, pat = s.c % 64;
          for (i64 j = 0; j < count; j++) { i64 x = item_of(s.b, j, pat); u64 wt = ((pat >> 2) & 3) == 0 ? 1 : ((pat >> 2) & 3) == 1 ? static_cast<u64>(1 + (x % 5)) : ((pat >> 2) & 3) == 2 ? (x % 7 == 0 ? 0 : 3) : static_cast<u64>(1 + j % 11);
            n.sk->update(Item<T>::make(x), fromq(wt)); if (wt) n.w[x] += wt; else ctx.probe("zero_weight_update"); }
          break; }
        case A_MERGE: { Node& src = nodes[static_cast<size_t>(s.b) % nodes.size()]; if (&src == &n) break;
          n.lg_lo = std::min(n.lg_lo, src.lg_lo); n.lg_hi = std::max(n.lg_hi, src.lg_hi);
          if (s.c & 1) { n.sk->merge(std::move(*src.sk)); for (auto& kv : src.w) n.w[kv.first] += kv.second; src.sk.reset(new S(make(src.lg_max))); src.w.clear(); src.lg_lo = src.lg_hi = src.lg_max; }
          else { n.sk->merge(*src.sk); for (auto& kv : src.w) n.w[kv.first] += kv.second; }
          ctx.nontrivial = true; ctx.probe("merge"); break; }
        case A_SERDE: { auto b = n.sk->serialize(0, typename Item<T>::serde());
          if (s.c & 2) n.sk.reset(new S(restore_stream(ctx, b, s.c, "C12", [&](std::istream& is) { return S::deserialize(is, typename Item<T>::serde(), std::equal_to<T>(), talloc<T>(1)); })));
          else n.sk.reset(new S(S::deserialize(b.data(), b.size(), typename Item<T>::serde(), std::equal_to<T>(), talloc<T>(1)))); ctx.fault("checkpoint_restore"); break; }
        case A_PLACED: placed_purge(n, s.c); break;
        case A_QUERY: query(n, s.b); break;
        case A_REFUSED: refused(*n.sk); break;
        case A_COPY: { Node& d = nodes[static_cast<size_t>(s.b) % nodes.size()]; if (&d != &n) { if (s.c & 1) *d.sk = *n.sk; else d.sk.reset(new S(*n.sk)); d.w = n.w; d.lg_max = n.lg_max; d.lg_lo = n.lg_lo; d.lg_hi = n.lg_hi; ctx.probe((s.c & 1) ? "copy_assign" : "copy_construct"); } break; }
        default: break;
      }
      for (Node& x : nodes) check(x, a_step_name(s.kind));
      ctx.t(toq(n.sk->get_total_weight())); ctx.t(static_cast<u64>(n.sk->get_num_active_items()));
    }
  }
  template<typename WW = W, typename std::enable_if<std::is_signed<WW>::value, int>::type = 0> void refused(S& s) {
    bool t = false; try { s.update(Item<T>::make(1), static_cast<W>(-1)); } catch (const std::invalid_argument&) { t = true; }
    ctx.require(t, fp("negative-weight-not-refused").c_str(), ""); ctx.fault("refused_op");
  }
  template<typename WW = W, typename std::enable_if<!std::is_signed<WW>::value, int>::type = 0> void refused(S&) {}
};
struct C12World: World {
  const char* name() const override { return "c12"; }
  const char* step_name(int k) const override { return a_step_name(k); }
  std::string family_of(const Plan& p) const override { static const char* n[] = { "fi<i64>", "fi<string>", "fi<string,double>" }; return p.cfg.empty() ? "?" : n[p.cfg[0] % 3]; }
  Plan generate(u64 run_seed, int tier) override { Rng rc(run_seed, "cfg"); i64 mx = rc.range(3, tier ? 10 : 8);
    return gen_generic(run_seed, tier, { static_cast<i64>(rc.below(3)), mx, rc.range(3, mx) }, 3, { {A_BATCH, 45}, {A_MERGE, 20}, {A_SERDE, 10}, {A_QUERY, 15}, {A_REFUSED, 3}, {A_COPY, 7}, {A_PLACED, 4} }, tier ? 4000 : 1500); }
  void execute(const Plan& p, Ctx& ctx) override {
    alloc_state().reset_counters(); alloc_state().budget = static_cast<size_t>(1) << 31;
    if (p.cfg[0] % 3 == 0) FiExec<int64_t, int64_t>(ctx, p, "fi<i64>").run(); else if (p.cfg[0] % 3 == 1) FiExec<std::string, uint64_t>(ctx, p, "fi<string>").run(); else FiExec<std::string, double>(ctx, p, "fi<string,double>").run();
    if (!alloc_state().errors.empty()) ctx.fail("C12|allocator-misuse", alloc_state().errors[0]);
  }
};

// ================================================================== C14 count-min
template<typename W> struct CmExec {
  typedef ds::count_min_sketch<W, talloc<W>> S;
  // weights are multiples of 1/4 for the floating-point weight type (sums stay exact) and integers otherwise; kept in quarters
  struct Node { std::unique_ptr<S> sk; std::unique_ptr<S> shadow; std::map<std::string, u64> truth; u64 total = 0; std::vector<std::pair<std::string, u64>> log; };
  static const bool FRACTIONAL = std::is_floating_point<W>::value;
  static W wq(u64 quarters) { return FRACTIONAL ? static_cast<W>(static_cast<double>(quarters) / 4.0) : static_cast<W>(quarters); }
  static double dq(u64 quarters) { return FRACTIONAL ? static_cast<double>(quarters) / 4.0 : static_cast<double>(quarters); }
  Ctx& ctx; const Plan& p; std::string fam; uint8_t nh; uint32_t nb; u64 seed;
  CmExec(Ctx& c, const Plan& pl, const char* f): ctx(c), p(pl), fam(f) { static const int hs[] = { 1, 2, 3, 5, 8, 255 }; static const int bs[] = { 3, 4, 7, 16, 64, 1000 }; static const u64 sd[3] = { ds::DEFAULT_SEED, 12345, 0x9e3779b97f4a7c15ULL };
    nh = static_cast<uint8_t>(hs[p.cfg[1] % 6]); nb = static_cast<uint32_t>(bs[p.cfg[2] % 6]); seed = sd[p.cfg[3] % 3]; }
  std::string fp(const char* cls) const { return "C14|" + fam + "|" + cls; }
  S make() const { return S(nh, nb, seed, talloc<W>(1)); }
  static std::string key(i64 x, bool str) { if (str) return "s" + std::to_string(x); return std::string(reinterpret_cast<const char*>(&x), 8); }
  static void apply(S& s, const std::string& k, u64 w) { if (k.size() == 8 && k[0] != 's') { int64_t v; std::memcpy(&v, k.data(), 8); s.update(v, wq(w)); } else s.update(k, wq(w)); }
  static W est(const S& s, const std::string& k) { if (k.size() == 8 && k[0] != 's') { int64_t v; std::memcpy(&v, k.data(), 8); return s.get_estimate(v); } return s.get_estimate(k); }
  static W lbd(const S& s, const std::string& k) { if (k.size() == 8 && k[0] != 's') { int64_t v; std::memcpy(&v, k.data(), 8); return s.get_lower_bound(v); } return s.get_lower_bound(k); }
  static W ubd(const S& s, const std::string& k) { if (k.size() == 8 && k[0] != 's') { int64_t v; std::memcpy(&v, k.data(), 8); return s.get_upper_bound(v); } return s.get_upper_bound(k); }
  void check(Node& n, const char* after, bool cells) {
    const S& s = *n.sk; const std::string w = std::string(" after ") + after;
    ctx.require(static_cast<double>(s.get_total_weight()) == dq(n.total), fp("total-weight").c_str(), std::to_string(static_cast<double>(s.get_total_weight())) + " vs " + std::to_string(dq(n.total)) + w);
    size_t i = 0;
    for (auto& kv : n.truth) { if (n.truth.size() > 300 && (i++ % (n.truth.size() / 300 + 1))) continue;
      const double e = static_cast<double>(est(s, kv.first)), lb = static_cast<double>(lbd(s, kv.first)), ub = static_cast<double>(ubd(s, kv.first));
      if (e < dq(kv.second)) ctx.fail(fp("estimate-below-true-weight"), "estimate " + std::to_string(e) + " true " + std::to_string(dq(kv.second)) + w);
      ctx.require(e <= dq(n.total), fp("estimate-above-total-weight").c_str(), w);
      ctx.require(lb <= e && e <= ub, fp("bounds-order").c_str(), w);
      ctx.require(e == static_cast<double>(est(*n.shadow, kv.first)), fp("estimate-differs-from-single-stream-sketch").c_str(), w);
    }
    ctx.require(static_cast<double>(est(s, key(987654321, false))) <= dq(n.total), fp("estimate-above-total-weight").c_str(), w);
    if (cells) {   // linearity: cell by cell equal to one sketch fed the concatenated streams
      auto a = s.begin(); auto b = n.shadow->begin(); size_t c = 0;
      for (; a != s.end() && b != n.shadow->end(); ++a, ++b, ++c) if (*a != *b) ctx.fail(fp("merged-cells-differ-from-single-stream-sketch"), "cell " + std::to_string(c) + w);
      ctx.require(a == s.end() && b == n.shadow->end() && c == static_cast<size_t>(nh) * nb, fp("cell-count").c_str(), w);
    }
  }
  void run() {
    std::vector<Node> nodes(3); for (Node& n : nodes) { n.sk.reset(new S(make())); n.shadow.reset(new S(make())); }
    int idx = 0;
    for (const Step& s : p.steps) {
      ctx.begin_step(idx++, s.kind);
      Node& n = nodes[static_cast<size_t>(s.a) % nodes.size()]; bool cells = false;
      switch (s.kind) {
        case A_BATCH: { const i64 count = std::min<i64>(s.c / 64, 1500), pat = s.c % 64;
          for (i64 j = 0; j < count; j++) { i64 x = fam::feed_value(s.b, j, count, pat & 7); u64 wt = (pat & 8) ? static_cast<u64>(1 + (static_cast<u64>(x) % 5)) : (FRACTIONAL ? 3 : 1); std::string k = key(x, (pat & 16) != 0);   // 3 quarters = 0.75 for floating-point weights
            apply(*n.sk, k, wt); apply(*n.shadow, k, wt); n.truth[k] += wt; n.total += wt; if (n.log.size() < 20000) n.log.push_back(std::make_pair(k, wt)); }
          break; }
        case A_MERGE: { Node& src = nodes[static_cast<size_t>(s.b) % nodes.size()];
          if (&src == &n) { bool t = false; try { n.sk->merge(*n.sk); } catch (const std::invalid_argument&) { t = true; } ctx.require(t, fp("self-merge-not-refused").c_str(), ""); ctx.fault("refused_op"); cells = true; break; }
          if (src.log.size() >= 20000 || n.log.size() + src.log.size() >= 20000) break;
          n.sk->merge(*src.sk); for (auto& kv : src.log) { apply(*n.shadow, kv.first, kv.second); n.truth[kv.first] += kv.second; n.total += kv.second; n.log.push_back(kv); }
          cells = true; ctx.nontrivial = true; ctx.probe("merge"); break; }
        case A_SERDE: { const unsigned hdr = (s.c & 8) ? static_cast<unsigned>(1 + (s.c >> 4) % 40) : 0;   // caller-reserved header in front of the image (bytes path): the image proper starts behind it
          auto b0 = n.sk->serialize(hdr); if (hdr) { ctx.require(b0.size() == n.sk->serialize().size() + hdr, fp("header-not-reserved").c_str(), std::to_string(b0.size())); ctx.probe("image_behind_header"); }
          std::vector<uint8_t> b(b0.begin() + hdr, b0.end());
          if (hdr) { auto plain = n.sk->serialize(); ctx.require(b.size() == plain.size() && std::equal(b.begin(), b.end(), plain.begin()), fp("image-behind-header-differs").c_str(), "header " + std::to_string(hdr)); }
          if (s.c & 2) n.sk.reset(new S(restore_stream(ctx, b, s.c, "C14", [&](std::istream& is) { return S::deserialize(is, seed, talloc<W>(1)); })));
          else n.sk.reset(new S(S::deserialize(b.data(), b.size(), seed, talloc<W>(1))));
          ctx.require(n.sk->get_seed() == seed, fp("restored-seed-differs").c_str(), std::to_string(n.sk->get_seed()) + " vs " + std::to_string(seed)); cells = true; ctx.fault("checkpoint_restore"); break; }
        case A_QUERY: {
          // the confidence clause on a fresh sketch and a skewed stream: h heavy items (each heavier than relative_error * total weight) and 2000 unit items.
          // A light item is over-estimated by more than relative_error * total only if it meets a heavy one in EVERY row: about (h / buckets)^rows of
          // them, against the e^-rows the configuration allows - rows 3..5, h / buckets = 1/6, so the margin is 8x..32x and does not depend on luck
          // (every fourth time: the smallest legal table, 3 buckets, one dominant item, 1..3 rows: a light item is off by more than the budget iff it shares the
          // dominant item's bucket in every row, 3^-rows of them against the e^-rows allowed - 0.33/0.37, 0.11/0.135, 0.037/0.050, twelve standard deviations apart at 20000 items)
          const bool tiny = (s.c & 12) == 12;
          const uint8_t rows = static_cast<uint8_t>(tiny ? 1 + s.b % 3 : 3 + s.b % 3); const uint32_t buckets = tiny ? 3u : static_cast<uint32_t>(40 + (s.c >> 6) % 30); const i64 heavy = tiny ? 1 : buckets / 6, light = tiny ? 20000 : 2000; const u64 hw = (tiny ? 400000 : 400) * (FRACTIONAL ? 4 : 1), lw = FRACTIONAL ? 4 : 1;
          S sk(rows, buckets, seed + static_cast<u64>(s.b), talloc<W>(1));
          for (i64 i = 0; i < heavy; i++) apply(sk, key(1000000 + i * 7919 + s.b, false), hw);
          for (i64 i = 0; i < light; i++) apply(sk, key(i * 31 + s.b, (s.c & 1) != 0), lw);
          const double total = dq(static_cast<u64>(heavy) * hw + static_cast<u64>(light) * lw), budget = sk.get_relative_error() * total; i64 over = 0;
          ctx.require(dq(hw) > budget, fp("skew-step-precondition").c_str(), "heavy weight " + std::to_string(dq(hw)) + " budget " + std::to_string(budget));
          for (i64 i = 0; i < light; i++) if (static_cast<double>(est(sk, key(i * 31 + s.b, (s.c & 1) != 0))) - dq(lw) > budget) over++;
          const double allowed = std::exp(-static_cast<double>(rows)) * static_cast<double>(light);
          if (static_cast<double>(over) > allowed) ctx.fail(fp("over-estimate-above-relative-error-more-often-than-the-confidence-allows"), std::to_string(over) + " of " + std::to_string(light) + " light items are over-estimated by more than relative_error * total = " + std::to_string(budget) + "; " + std::to_string(rows) + " rows allow " + std::to_string(allowed) + " (" + std::to_string(buckets) + " buckets, " + std::to_string(heavy) + " heavy items)");
          ctx.check(); ctx.probe("confidence_clause_checked"); ctx.nontrivial = true; break; }
        case A_REFUSED: {
          S other1(static_cast<uint8_t>(nh == 255 ? 3 : nh + 1), nb, seed, talloc<W>(1)), other2(nh, nb + 1, seed, talloc<W>(1)), other3(nh, nb, seed + 1, talloc<W>(1));
          int t = 0; try { n.sk->merge(other1); } catch (const std::invalid_argument&) { t++; } try { n.sk->merge(other2); } catch (const std::invalid_argument&) { t++; } try { n.sk->merge(other3); } catch (const std::invalid_argument&) { t++; }
          ctx.require(t == 3, fp("incompatible-merge-not-refused").c_str(), std::to_string(t));
          // same seed and the same number of cells, different shape
          if (nb % 2 == 0 && nb / 2 >= 3 && nh * 2 <= 255) { S other4(static_cast<uint8_t>(nh * 2), nb / 2, seed, talloc<W>(1)); other4.update(static_cast<int64_t>(5), wq(4)); bool r4 = false; try { n.sk->merge(other4); } catch (const std::invalid_argument&) { r4 = true; }
            ctx.require(r4, fp("merge-of-different-shape-with-equal-cell-count-not-refused").c_str(), std::to_string(nh) + "x" + std::to_string(nb) + " accepted " + std::to_string(nh * 2) + "x" + std::to_string(nb / 2)); ctx.probe("transposed_shape_refusal"); }
          cells = true; ctx.fault("refused_op"); break; }
        case A_COPY: { Node& d = nodes[static_cast<size_t>(s.b) % nodes.size()]; if (&d != &n) { d.sk.reset(new S(*n.sk)); d.shadow.reset(new S(*n.shadow)); d.truth = n.truth; d.total = n.total; d.log = n.log; } break; }
        default: break;
      }
      check(n, a_step_name(s.kind), cells);
      ctx.t(static_cast<u64>(n.total));
    }
  }
};
struct C14World: World {
  const char* name() const override { return "c14"; }
  const char* step_name(int k) const override { return a_step_name(k); }
  std::string family_of(const Plan& p) const override { static const char* n[] = { "countmin<u64>", "countmin<i64>", "countmin<double>", "countmin<u32>", "countmin<float>" }; return p.cfg.empty() ? "?" : n[p.cfg[0] % 5]; }
  Plan generate(u64 run_seed, int tier) override { Rng rc(run_seed, "cfg");
    return gen_generic(run_seed, tier, { static_cast<i64>(rc.below(5)), static_cast<i64>(rc.below(6)), static_cast<i64>(rc.below(6)), static_cast<i64>(rc.below(3)) }, 3, { {A_BATCH, 45}, {A_MERGE, 28}, {A_SERDE, 10}, {A_REFUSED, 7}, {A_COPY, 10}, {A_QUERY, 5} }, 1500); }
  void execute(const Plan& p, Ctx& ctx) override {
    alloc_state().reset_counters(); alloc_state().budget = static_cast<size_t>(1) << 31;
    switch (p.cfg[0] % 5) { case 0: CmExec<uint64_t>(ctx, p, "countmin<u64>").run(); break; case 1: CmExec<int64_t>(ctx, p, "countmin<i64>").run(); break; case 2: CmExec<double>(ctx, p, "countmin<double>").run(); break;
      case 3: CmExec<uint32_t>(ctx, p, "countmin<u32>").run(); break; default: CmExec<float>(ctx, p, "countmin<float>").run(); break; }   // the 4-byte weight types: field widths of the image differ from the 8-byte ones
    if (!alloc_state().errors.empty()) ctx.fail("C14|allocator-misuse", alloc_state().errors[0]);
  }
};

// ================================================================== C17 t-digest
template<typename T> struct TdExec {
  typedef ds::tdigest<T, talloc<T>> S;
  struct Node { std::unique_ptr<S> sk; std::vector<T> vals; };
  Ctx& ctx; const Plan& p; std::string fam; uint16_t k;
  TdExec(Ctx& c, const Plan& pl, const char* f): ctx(c), p(pl), fam(f) { static const int ks[] = { 10, 10, 20, 50, 100, 200 }; k = static_cast<uint16_t>(ks[p.cfg[1] % 6]); }
  std::string fp(const char* cls) const { return "C17|" + fam + "|" + cls; }
  static T value_of(i64 start, i64 j, i64 count, i64 pat) {
    // patterns 8 and 9: values that are not dyadic (sums and products round), constant or a few distinct ones: interpolation between equal or close centroid means
    switch (pat % 10) { case 8: return static_cast<T>(static_cast<double>(start % 97) / 10.0 + 0.1); case 9: return static_cast<T>(0.1 * static_cast<double>(1 + (j % 3)) + static_cast<double>(start % 3));
      case 0: return static_cast<T>(start + j); case 1: return static_cast<T>(start + count - j); case 2: { u64 s = static_cast<u64>(start * 7 + j); return static_cast<T>(static_cast<double>(splitmix64(s) % 1000000) / 64.0 - 3000.0); }
      case 3: return static_cast<T>(start); case 4: return static_cast<T>((j % 3) * 1000 + (j % 7)); case 5: return static_cast<T>(start % 5 + (j % 2)); case 6: { u64 s = static_cast<u64>(start + j * 31); return static_cast<T>(std::ldexp(1.0, static_cast<int>(splitmix64(s) % 40) - 20)); } default: return static_cast<T>(-(start + j)) / static_cast<T>(8); }
  }
  void check_basic(Node& n, const char* after) {
    const S& s = *n.sk; const std::string w = std::string(" after ") + after;
    ctx.require(s.get_total_weight() == n.vals.size(), fp("total-weight").c_str(), std::to_string(s.get_total_weight()) + " vs " + std::to_string(n.vals.size()) + w);
    ctx.require(s.is_empty() == n.vals.empty(), fp("emptiness").c_str(), w);
    if (n.vals.empty()) return;
    T mn = n.vals[0], mx = n.vals[0]; for (T v : n.vals) { if (v < mn) mn = v; if (v > mx) mx = v; }
    ctx.require(s.get_min_value() == mn, fp("min-value").c_str(), hexd(s.get_min_value()) + " vs " + hexd(mn) + w);
    ctx.require(s.get_max_value() == mx, fp("max-value").c_str(), hexd(s.get_max_value()) + " vs " + hexd(mx) + w);
  }
  void check_read(Node& n, i64 salt) {
    S& s = *n.sk;
    if (n.vals.empty()) { int t = 0; try { s.get_rank(static_cast<T>(1)); } catch (const std::exception&) { t++; } try { s.get_quantile(0.5); } catch (const std::exception&) { t++; } try { s.get_min_value(); } catch (const std::exception&) { t++; }
      ctx.require(t == 3, fp("empty-sketch-query-not-rejected").c_str(), std::to_string(t)); ctx.fault("refused_op"); return; }
    const T mn = s.get_min_value(), mx = s.get_max_value();
    // rank grid: inputs, their neighbours and midpoints
    std::vector<T> sorted = n.vals; std::sort(sorted.begin(), sorted.end()); sorted.erase(std::unique(sorted.begin(), sorted.end()), sorted.end());
    std::vector<T> grid; const size_t step = std::max<size_t>(1, sorted.size() / 40);
    for (size_t i = static_cast<size_t>(salt) % step; i < sorted.size(); i += step) { T v = sorted[i]; grid.push_back(std::nextafter(v, -std::numeric_limits<T>::infinity())); grid.push_back(v); grid.push_back(std::nextafter(v, std::numeric_limits<T>::infinity())); if (i + step < sorted.size()) grid.push_back(v / 2 + sorted[i + step] / 2); }
    std::sort(grid.begin(), grid.end());
    double prev = -1;
    for (T v : grid) { const double r = s.get_rank(v); ctx.require(r >= 0 && r <= 1, fp("rank-out-of-range").c_str(), hexd(r)); ctx.require(r >= prev, fp("rank-not-monotone").c_str(), "at " + hexd(v) + ": " + hexd(r) + " < " + hexd(prev)); prev = r; }
    ctx.require(s.get_rank(std::nextafter(mn, -std::numeric_limits<T>::infinity())) == 0, fp("rank-below-min-not-zero").c_str(), "");
    ctx.require(s.get_rank(std::nextafter(mx, std::numeric_limits<T>::infinity())) == 1, fp("rank-above-max-not-one").c_str(), "");
    T prevq = mn;
    for (int i = 0; i <= 128; i++) { const double r = static_cast<double>(i) / 128.0; const T q = s.get_quantile(r);
      ctx.require(q >= mn && q <= mx, fp("quantile-outside-min-max").c_str(), "rank " + hexd(r) + " gives " + hexd(q) + " not in [" + hexd(mn) + "," + hexd(mx) + "]");
      if (q < prevq) ctx.fail(fp(std::nextafter(q, std::numeric_limits<T>::infinity()) >= prevq ? "quantile-not-monotone-by-one-ulp" : "quantile-not-monotone"), "rank " + hexd(r) + ": " + hexd(q) + " < " + hexd(prevq)); prevq = q; }
    ctx.require(s.get_quantile(0) == mn && s.get_quantile(1) == mx, fp("extreme-quantiles").c_str(), "");
    if (sorted.size() >= 3) {
      std::vector<T> sp = { sorted[0], sorted[sorted.size() / 2], sorted.back() };
      if (sp[0] < sp[1] && sp[1] < sp[2]) {
        auto cdf = s.get_CDF(sp.data(), 3); auto pmf = s.get_PMF(sp.data(), 3); double sum = 0;
        ctx.require(cdf.size() == 4 && pmf.size() == 4 && cdf[3] == 1.0, fp("cdf-shape").c_str(), "");
        for (size_t i = 0; i < 3; i++) ctx.require(cdf[i] == s.get_rank(sp[i]), fp("cdf-differs-from-rank").c_str(), "");
        for (size_t i = 0; i < 4; i++) { sum += pmf[i]; ctx.require(std::fabs(pmf[i] - (cdf[i] - (i ? cdf[i - 1] : 0.0))) <= 1e-12, fp("pmf-differs-from-cdf-differences").c_str(), ""); }
        ctx.require(std::fabs(sum - 1.0) <= 1e-12, fp("pmf-does-not-sum-to-one").c_str(), "");
      }
    }
    int t = 0; try { s.get_rank(std::numeric_limits<T>::quiet_NaN()); } catch (const std::invalid_argument&) { t++; } try { s.get_quantile(1.5); } catch (const std::invalid_argument&) { t++; }
    ctx.require(t == 2, fp("invalid-query-not-rejected").c_str(), std::to_string(t));
    // centroid count stays bounded by a small multiple of k however long the stream (count field of the image, layout comment in tdigest_impl.hpp)
    auto img = s.serialize(0, false);
    if (img.size() >= 16 && img[0] == 2) { uint32_t nc = load32le(img.data() + 8); ctx.require(nc <= 2u * (2u * k + 30u), fp("centroid-count-unbounded").c_str(), std::to_string(nc) + " centroids, k=" + std::to_string(k)); ctx.t(static_cast<u64>(nc)); }
    ctx.fault("interleaved_read"); ctx.probe("tdigest_compress_by_read");
  }
  void run() {
    std::vector<Node> nodes(3); for (Node& n : nodes) n.sk.reset(new S(k, talloc<T>(1)));
    int idx = 0;
    for (const Step& s : p.steps) {
      ctx.begin_step(idx++, s.kind);
      Node& n = nodes[static_cast<size_t>(s.a) % nodes.size()];
      switch (s.kind) {
        case A_BATCH: { const i64 count = s.c / 64, pat = s.c % 64; for (i64 j = 0; j < count; j++) { T v = value_of(s.b, j, count, pat); n.sk->update(v); n.vals.push_back(v); } break; }
        case A_NAN: n.sk->update(std::numeric_limits<T>::quiet_NaN()); ctx.probe("nan_offered"); break;
        case A_MERGE: { Node& src = nodes[static_cast<size_t>(s.b) % nodes.size()]; if (&src == &n) break; n.sk->merge(*src.sk); n.vals.insert(n.vals.end(), src.vals.begin(), src.vals.end()); check_basic(src, "being merge source"); ctx.nontrivial = true; ctx.probe("merge"); break; }
        case A_SERDE: { auto b = n.sk->serialize(0, (s.b & 1) != 0);
          if (s.c & 2) n.sk.reset(new S(restore_stream(ctx, b, s.c, "C17", [&](std::istream& is) { return S::deserialize(is, talloc<T>(1)); })));
          else n.sk.reset(new S(S::deserialize(b.data(), b.size(), talloc<T>(1)))); ctx.fault("checkpoint_restore"); break; }
        case A_QUERY: check_read(n, s.b); break;
        case A_COMPRESS: n.sk->compress();
          if ((s.c & 12) == 4) {   // one value, a compress point (query / compress / unbuffered image / restore of the one-value image), a few more values that stay in the buffer, read
            const uint16_t k3 = static_cast<uint16_t>(10 + (s.b % 5) * 40); S one(k3, talloc<T>(1)); const T v0 = value_of(s.b, 0, 64, 2); one.update(v0); T mn = v0, mx = v0;
            switch ((s.c >> 4) & 3) { case 0: (void)one.get_quantile(0.5); break; case 1: one.compress(); break; case 2: (void)one.serialize(0, false); break; default: { auto b1 = one.serialize(0, true); one = S::deserialize(b1.data(), b1.size(), talloc<T>(1)); break; } }
            const i64 more = 1 + s.b % 9; std::vector<T> all(1, v0); for (i64 j = 1; j <= more; j++) { const T v = value_of(s.b, j, 64, 2); one.update(v); all.push_back(v); if (v < mn) mn = v; if (v > mx) mx = v; }
            ctx.require(one.get_total_weight() == all.size() && one.get_quantile(0) == mn && one.get_quantile(1) == mx, fp("one-value-then-buffered|extreme-quantiles").c_str(), "quantile(0)=" + hexd(one.get_quantile(0)) + " min " + hexd(mn) + ", quantile(1)=" + hexd(one.get_quantile(1)) + " max " + hexd(mx) + " after " + std::to_string(more) + " more values");
            std::sort(all.begin(), all.end()); const T med = one.get_quantile(0.5); ctx.require(med >= mn && med <= mx && (all.size() < 3 || (med > mn || all[all.size() / 2] == mn)), fp("one-value-then-buffered|median").c_str(), hexd(med));
            ctx.check(); ctx.probe("one_value_then_buffered"); }
          if ((s.c & 12) == 8) {   // accuracy on a long stream of uniformly spread values: rank error small in the middle, smaller still in the tails. The pinned tree stays below
            // 0.34/k in the middle and 0.042/k beyond the 2nd / 98th percentile (k 50..400, 30 streams each); 2/k and 0.3/k are demanded
            static const int ks3[] = { 50, 100, 200 }; const uint16_t k4 = static_cast<uint16_t>(ks3[static_cast<size_t>(s.b) % 3]); const size_t nn = 20000; S acc(k4, talloc<T>(1)); std::vector<T> vals(nn);
            for (size_t j = 0; j < nn; j++) { vals[j] = value_of(s.b, static_cast<i64>(j), static_cast<i64>(nn), 2); acc.update(vals[j]); }
            std::sort(vals.begin(), vals.end());
            for (double q : { 0.001, 0.01, 0.05, 0.25, 0.5, 0.75, 0.95, 0.99, 0.999 }) { const T x = vals[static_cast<size_t>(q * static_cast<double>(nn - 1))];
              const double truth = (static_cast<double>(std::upper_bound(vals.begin(), vals.end(), x) - vals.begin()) + static_cast<double>(std::lower_bound(vals.begin(), vals.end(), x) - vals.begin())) / 2.0 / static_cast<double>(nn), err = std::fabs(acc.get_rank(x) - truth);
              const bool tail = q < 0.02 || q > 0.98; const double bound = (tail ? 0.3 : 2.0) / static_cast<double>(k4);
              if (err > bound) ctx.fail(fp(tail ? "rank-error-in-the-tail-above-what-k-promises" : "rank-error-in-the-middle-above-what-k-promises"), "rank of the " + std::to_string(q) + " quantile off by " + std::to_string(err) + ", allowed " + std::to_string(bound) + " (k=" + std::to_string(k4) + ", " + std::to_string(nn) + " uniformly spread values)"); }
            ctx.check(); ctx.probe("long_stream_accuracy"); }
          if ((s.c & 12) == 12) {   // a long run of one-value digests merged into one large digest (the aggregator of many tiny producers), on digests of its own: k from a
            // wider range than the run's, since the scale function only degenerates for small batches at large k
            static const int ks2[] = { 50, 100, 200, 250, 400 }; const uint16_t k2 = static_cast<uint16_t>(ks2[static_cast<size_t>(s.b) % 5]);
            S big(k2, talloc<T>(1)); const i64 bulk = 20 * static_cast<i64>(k2), tiny = 8 * static_cast<i64>(k2); u64 total = 0; T mn = 0, mx = 0;
            for (i64 j = 0; j < bulk + tiny; j++) { const T v = value_of(s.b, j, bulk + tiny, 2); if (total == 0 || v < mn) mn = v; if (total == 0 || v > mx) mx = v; total++;
              if (j < bulk) big.update(v); else { S one(k2, talloc<T>(1)); one.update(v); if (j & 1) big.merge(one); else big.merge(std::move(one)); } }
            ctx.require(big.get_total_weight() == total && big.get_min_value() == mn && big.get_max_value() == mx, fp("tiny-merges|weight-or-extremes").c_str(), "");
            auto img = big.serialize(); if (img.size() >= 16 && img[0] == 2) { const uint32_t nc = load32le(img.data() + 8);
              if (nc > 2u * (2u * k2 + 30u)) ctx.fail(fp("centroid-count-unbounded"), std::to_string(nc) + " centroids after " + std::to_string(bulk) + " values and " + std::to_string(tiny) + " one-value merges, k=" + std::to_string(k2)); }
            ctx.check(); ctx.probe("tiny_merges"); ctx.nontrivial = true; }
          break;
        case A_COPY: { Node& d = nodes[static_cast<size_t>(s.b) % nodes.size()]; if (&d != &n) { d.sk.reset(new S(*n.sk)); d.vals = n.vals; } break; }
        default: break;
      }
      for (Node& x : nodes) check_basic(x, a_step_name(s.kind));
      ctx.t(static_cast<u64>(n.vals.size()));
    }
  }
};
struct C17World: World {
  const char* name() const override { return "c17"; }
  const char* step_name(int k) const override { return a_step_name(k); }
  std::string family_of(const Plan& p) const override { return p.cfg.empty() || p.cfg[0] == 0 ? "tdigest<double>" : "tdigest<float>"; }
  Plan generate(u64 run_seed, int tier) override { Rng rc(run_seed, "cfg");
    return gen_generic(run_seed, tier, { static_cast<i64>(rc.below(2)), static_cast<i64>(rc.below(6)) }, 3, { {A_BATCH, 40}, {A_MERGE, 18}, {A_SERDE, 8}, {A_QUERY, 20}, {A_NAN, 4}, {A_COMPRESS, 4}, {A_COPY, 6} }, tier ? 4000 : 1500); }
  void execute(const Plan& p, Ctx& ctx) override {
    alloc_state().reset_counters(); alloc_state().budget = static_cast<size_t>(1) << 31;
    if (p.cfg[0] == 0) TdExec<double>(ctx, p, "tdigest<double>").run(); else TdExec<float>(ctx, p, "tdigest<float>").run();
    if (!alloc_state().errors.empty()) ctx.fail("C17|allocator-misuse", alloc_state().errors[0]);
  }
};

// ================================================================== C16 var_opt
double vo_weight(i64 id, i64 pat) {
  switch (pat & 7) { case 0: return 1.0; case 1: return std::ldexp(1.0, static_cast<int>(static_cast<u64>(id) % 20) - 5); case 2: return (static_cast<u64>(id) % 37 == 0) ? 65536.0 : 0.25; case 3: return static_cast<double>(1 + id % 1000);
    case 4: return static_cast<double>(1000 - id % 1000); case 5: return (id % 500 == 250) ? 1e9 : 1.0; case 6: return 1.0 + static_cast<double>(static_cast<u64>(id) % 3) * 0.5; default: return 0.125 * static_cast<double>(1 + static_cast<u64>(id) % 64); }
}
struct C16World: World {
  typedef ds::var_opt_sketch<int64_t, talloc<int64_t>> S; typedef ds::var_opt_union<int64_t, talloc<int64_t>> UN;
  const char* name() const override { return "c16"; }
  const char* step_name(int k) const override { return a_step_name(k); }
  std::string family_of(const Plan& p) const override { return p.cfg.size() > 2 && p.cfg[2] > 0 ? "varopt<i64>+extreme_draw" : "varopt<i64>"; }
  Plan generate(u64 run_seed, int tier) override { Rng rc(run_seed, "cfg"); static const int ks[] = { 1, 2, 3, 5, 8, 16, 32, 100 };
    Plan p = gen_generic(run_seed, tier, { rc.pick(ks), static_cast<i64>(rc.below(4)), rc.chance(1, 10) ? 1 + static_cast<i64>(rc.below(40)) : 0, static_cast<i64>(rc.below(3)) }, 3, { {A_BATCH, 45}, {A_UNION, 22}, {A_SERDE, 10}, {A_REFUSED, 5}, {A_RESET, 4}, {A_COPY, 6}, {A_QUERY, 8} }, tier ? 4000 : 1500);
    return p; }
  struct Node { std::unique_ptr<S> sk; std::map<i64, double> in; double total = 0; u64 n = 0; uint32_t k = 0; bool may_dup = false; };   // may_dup: built from sketches that share items (a sketch and its copy)
  static bool sum_close(double a, double b) { return close(a, b, 1e-9); }
  void check(Ctx& ctx, Node& nd, const char* after, bool is_union_result, uint32_t max_k) {
    const S& s = *nd.sk; const std::string w = std::string(" after ") + after;
    ctx.require(s.get_n() == nd.n, "C16|n-differs", std::to_string(s.get_n()) + " vs " + std::to_string(nd.n) + w);
    if (!is_union_result) ctx.require(s.get_num_samples() == std::min<u64>(nd.n, s.get_k()), "C16|num-samples-not-min-n-k", std::to_string(s.get_num_samples()) + " n=" + std::to_string(nd.n) + " k=" + std::to_string(s.get_k()) + w);
    else ctx.require(s.get_num_samples() <= max_k && s.get_num_samples() <= nd.n, "C16|union-result-larger-than-smallest-k", std::to_string(s.get_num_samples()) + " > " + std::to_string(max_k) + w);
    double sum = 0, tau = std::numeric_limits<double>::infinity(); std::set<i64> seen; u64 cnt = 0;
    for (auto it = s.begin(); it != s.end(); ++it) { const i64 id = (*it).first; const double wt = (*it).second; cnt++;
      ctx.require(nd.in.count(id) != 0, "C16|sample-not-from-input", std::to_string(id) + w);
      if (!nd.may_dup) ctx.require(seen.insert(id).second, "C16|sample-duplicated", std::to_string(id) + w);
      ctx.require(wt > 0 && std::isfinite(wt), "C16|sample-weight-invalid", hexd(wt) + w);
      sum += wt; if (wt < tau) tau = wt; }
    ctx.require(cnt == s.get_num_samples(), "C16|iteration-count-vs-num-samples", std::to_string(cnt) + " vs " + std::to_string(s.get_num_samples()) + w);
    ctx.require(sum_close(sum, nd.total), "C16|adjusted-weights-do-not-sum-to-total", hexd(sum) + " vs " + hexd(nd.total) + w);
    const bool sampling = nd.n > s.get_num_samples();
    if (is_union_result) { /* the heavy-item clause is stated for a sketch and its own stream: a union only sees what its inputs retained */ }
    else if (nd.may_dup) { ctx.probe("union_of_overlapping_inputs"); }
    else if (!sampling) { for (auto it = s.begin(); it != s.end(); ++it) ctx.require((*it).second == nd.in[(*it).first], "C16|exact-mode-weight-changed", w); }
    else {
      // every input item heavier than the threshold is present with its exact weight (threshold = adjusted weight of the sampled region)
      std::map<i64, double> got; for (auto it = s.begin(); it != s.end(); ++it) got[(*it).first] = (*it).second;
      for (auto& kv : nd.in) if (kv.second > tau * (1 + 1e-9)) { auto g = got.find(kv.first); if (g == got.end()) ctx.fail("C16|heavy-item-missing", "item " + std::to_string(kv.first) + " weight " + hexd(kv.second) + " threshold " + hexd(tau) + w); ctx.require(g->second == kv.second, "C16|heavy-item-weight-changed", w); }
      for (auto& kv : got) ctx.require(kv.second == nd.in[kv.first] || close(kv.second, tau, 1e-9) || kv.second >= nd.in[kv.first], "C16|light-item-weight-not-threshold", std::to_string(kv.first) + " " + hexd(kv.second) + " tau " + hexd(tau) + w);
      ctx.probe("sampling_mode_checked");
    }
    auto all = s.estimate_subset_sum([](int64_t) { return true; }); auto none = s.estimate_subset_sum([](int64_t) { return false; });
    if (nd.n > 0) { ctx.require(sum_close(all.estimate, nd.total) && sum_close(all.total_sketch_weight, nd.total), "C16|subset-sum-of-everything-not-total", hexd(all.estimate) + " vs " + hexd(nd.total) + w); ctx.require(none.estimate == 0, "C16|subset-sum-of-nothing-not-zero", w); }
    auto odd = s.estimate_subset_sum([](int64_t x) { return (x & 1) != 0; });
    ctx.require(odd.lower_bound <= odd.estimate * (1 + 1e-12) && odd.estimate <= odd.upper_bound * (1 + 1e-12), "C16|subset-sum-bounds-order", hexd(odd.lower_bound) + " " + hexd(odd.estimate) + " " + hexd(odd.upper_bound) + w);
  }
  void execute(const Plan& p, Ctx& ctx) override {
    alloc_state().reset_counters(); alloc_state().budget = static_cast<size_t>(1) << 31;
    SimRandom rnd(p.run_seed); RandomScope rs(rnd);
    if (p.cfg[2] > 0) { rnd.extreme_at = p.cfg[2] * 3; rnd.extreme_value = p.cfg[3] == 0 ? 0 : p.cfg[3] == 1 ? ~0ULL : 1ULL << 63; ctx.fault("extreme_draw"); ctx.fp_suffix = "|+extreme_draw"; }
    const uint32_t k = static_cast<uint32_t>(p.cfg[0]); const ds::resize_factor rf = static_cast<ds::resize_factor>(p.cfg[1] & 3);
    std::vector<Node> nodes(3); i64 next_id = 0;
    for (size_t i = 0; i < 3; i++) { nodes[i].k = std::max<uint32_t>(1, i == 2 ? k * 2 + 1 : k); nodes[i].sk.reset(new S(nodes[i].k, rf, talloc<int64_t>(1))); }
    int idx = 0;
    for (const Step& s : p.steps) {
      ctx.begin_step(idx++, s.kind);
      Node& n = nodes[static_cast<size_t>(s.a) % nodes.size()];
      switch (s.kind) {
        case A_BATCH: { const i64 count = s.c / 64, pat = s.c % 64; for (i64 j = 0; j < count; j++) { const i64 id = next_id++; const double wt = vo_weight(id + s.b, pat);
            if ((pat & 32) && j % 13 == 5) { n.sk->update(-1000000 - id, 0.0); ctx.probe("zero_weight_update"); }   // a weight of exactly zero is accepted and ignored: not an item, not counted
            n.sk->update(id, wt); n.in[id] = wt; n.total += wt; n.n++; } break; }
        case A_UNION: {
          // union of two or three pool sketches in scheduler order; the result replaces the target
          Node& b = nodes[static_cast<size_t>(s.b) % nodes.size()]; const uint32_t max_k = std::max<uint32_t>(1, static_cast<uint32_t>(1 + (s.c % 40)));
          UN un(max_k, talloc<int64_t>(1));
          Node res; res.k = max_k; uint32_t min_k = max_k;
          std::vector<Node*> order = { &n, &b }; if (s.c & 32) order.push_back(&nodes[(static_cast<size_t>(s.a) + 1) % 3]);
          std::set<Node*> used; std::set<i64> ids_seen;
          std::map<i64, double> in_adj;   // adjusted weight each sample carries in the input sketch it comes from
          for (Node* x : order) { if (!used.insert(x).second) continue; for (auto it = x->sk->begin(); it != x->sk->end(); ++it) in_adj[(*it).first] = (*it).second;
            if (s.c & 16) { S tmp(*x->sk); un.update(std::move(tmp)); } else un.update(*x->sk);
            for (auto& kv : x->in) res.in[kv.first] = kv.second; res.total += x->total; res.n += x->n; if (x->n > x->sk->get_num_samples()) min_k = std::min(min_k, x->sk->get_k());   // an input still holding all of its items imposes no k
            for (auto& kv : x->in) if (ids_seen.count(kv.first)) res.may_dup = true; else ids_seen.insert(kv.first); }
          res.sk.reset(new S(un.get_result()));
          // "at most the smallest effective k": the union never returns more than its own max_k (its effective k only shrinks from there while
          // marked items are absorbed); an input's k does not bind a union with a larger max_k, by design of the gadget
          (void)min_k;
          check(ctx, res, "union get_result", true, max_k);
          // a union treats every input sample as an item of its adjusted weight: a sample that survives carries that weight (still heavy) or the result's
          // threshold (which it is lighter than) - never less than it came in with
          if (!res.may_dup) { for (auto it = res.sk->begin(); it != res.sk->end(); ++it) { auto f = in_adj.find((*it).first);
              if (f != in_adj.end() && (*it).second < f->second * (1 - 1e-9)) ctx.fail("C16|union-result-sample-lighter-than-in-its-input", "item " + std::to_string((*it).first) + " came in with " + hexd(f->second) + " and has " + hexd((*it).second)); }
            ctx.probe("union_sample_weights_checked"); }
          if (s.c & 8) { auto bytes = un.serialize(); UN back = UN::deserialize(bytes.data(), bytes.size(), ds::serde<int64_t>(), talloc<int64_t>(1)); Node r2; r2.in = res.in; r2.total = res.total; r2.n = res.n; r2.may_dup = res.may_dup; r2.sk.reset(new S(back.get_result())); check(ctx, r2, "restored union get_result", true, max_k); ctx.fault("checkpoint_restore"); }
          // two differentials on the same inputs: (1) the union fed by reference and the union fed by move, (2) a union that is reset and used again and a fresh
          // one. Which items survive may differ (the paths visit slots in different orders); the shape of the result - k, n, number of samples - and the
          // total adjusted weight may not
          { struct Shape { std::string s; double sum; };
            auto snap = [&](const S& r) { Shape o; o.sum = 0; for (auto it = r.begin(); it != r.end(); ++it) o.sum += (*it).second; o.s = std::to_string(r.get_k()) + "/" + std::to_string(r.get_n()) + "/" + std::to_string(r.get_num_samples()); return o; };
            auto run_union = [&](UN& u, bool by_move, const std::vector<Node*>& ord) { std::set<Node*> u2; rnd.rng.seed(mix(p.run_seed, static_cast<u64>(idx) * 16 + 3));
              for (Node* x : ord) { if (!u2.insert(x).second) continue; if (by_move) { S tmp(*x->sk); u.update(std::move(tmp)); } else u.update(*x->sk); } return snap(u.get_result()); };
            auto same = [&](const Shape& x, const Shape& y) { return x.s == y.s && sum_close(x.sum, y.sum); };
            try {
              UN ul(max_k, talloc<int64_t>(1)), ur(max_k, talloc<int64_t>(1)); const Shape rl = run_union(ul, false, order), rr = run_union(ur, true, order);
              if (!same(rl, rr)) ctx.fail("C16|union-fed-by-move-differs-from-union-fed-by-reference", "k/n/samples, total by reference " + rl.s + ", " + hexd(rl.sum) + " by move " + rr.s + ", " + hexd(rr.sum));
              ul.reset(); std::vector<Node*> second = { &b }; UN fresh(max_k, talloc<int64_t>(1)); const Shape r1 = run_union(ul, (s.c & 16) != 0, second), r2 = run_union(fresh, (s.c & 16) != 0, second);
              if (!same(r1, r2)) ctx.fail("C16|union-reused-after-reset-differs-from-fresh-union", "k/n/samples, total reused " + r1.s + ", " + hexd(r1.sum) + " fresh " + r2.s + ", " + hexd(r2.sum));
              ctx.probe("union_differentials");
            } catch (const std::logic_error&) { ctx.probe("union_get_result_threw"); }   // the recorded finding: reported through the model check above, not here
            ctx.check(); }
          ctx.nontrivial = true; ctx.probe("union"); break; }
        case A_SERDE: { auto b = n.sk->serialize(); if (s.c & 2) n.sk.reset(new S(restore_stream(ctx, b, s.c, "C16", [&](std::istream& is) { return S::deserialize(is, ds::serde<int64_t>(), talloc<int64_t>(1)); }))); else n.sk.reset(new S(S::deserialize(b.data(), b.size(), ds::serde<int64_t>(), talloc<int64_t>(1)))); ctx.fault("checkpoint_restore"); break; }
        case A_REFUSED: { int t = 0; const double bad[] = { -1.0, std::numeric_limits<double>::quiet_NaN(), std::numeric_limits<double>::infinity() };
          for (double wb : bad) { try { n.sk->update(static_cast<int64_t>(-5), wb); } catch (const std::invalid_argument&) { t++; } }
          ctx.require(t == 3, "C16|invalid-weight-not-refused", std::to_string(t)); ctx.fault("refused_op"); break; }
        case A_RESET: n.sk->reset(); n.in.clear(); n.total = 0; n.n = 0; break;
        case A_COPY: { Node& d = nodes[static_cast<size_t>(s.b) % nodes.size()]; if (&d != &n) { d.sk.reset(new S(*n.sk)); d.in = n.in; d.total = n.total; d.n = n.n; d.k = n.k; } break; }
        default: break;
      }
      for (Node& x : nodes) check(ctx, x, a_step_name(s.kind), false, 0);
      ctx.t(static_cast<u64>(n.n)); ctx.t(n.total);
    }
    ctx.probe("u64_draws", rnd.u64_drawn);
    if (!alloc_state().errors.empty()) ctx.fail("C16|allocator-misuse", alloc_state().errors[0]);
  }
};

// ================================================================== C18 ebpps
struct C18World: World {
  typedef ds::ebpps_sketch<int64_t, talloc<int64_t>> S;
  const char* name() const override { return "c18"; }
  const char* step_name(int k) const override { return a_step_name(k); }
  std::string family_of(const Plan& p) const override { return p.cfg.size() > 1 && p.cfg[1] > 0 ? "ebpps<i64>+extreme_draw" : "ebpps<i64>"; }   // a violation that needs a 2^-53 draw says so
  Plan generate(u64 run_seed, int tier) override { Rng rc(run_seed, "cfg"); static const int ks[] = { 1, 2, 3, 4, 8, 16, 32 };
    return gen_generic(run_seed, tier, { rc.pick(ks), rc.chance(1, 10) ? 1 + static_cast<i64>(rc.below(60)) : 0, static_cast<i64>(rc.below(3)) }, 3, { {A_BATCH, 45}, {A_MERGE, 25}, {A_SERDE, 8}, {A_REFUSED, 4}, {A_RESET, 3}, {A_COPY, 5}, {A_QUERY, 10} }, tier ? 2000 : 600); }
  struct Node { std::unique_ptr<S> sk; std::set<i64> ids; double cum = 0, maxw = 0; u64 n = 0; bool equal_weights = true; double w0 = 0; uint32_t k = 0; bool may_dup = false; bool merged = false; };   // merged: a non-empty merge is part of this sketch's history
  void check(Ctx& ctx, Node& nd, const char* after) {
    const S& s = *nd.sk; const std::string w = std::string(" after ") + after;
    ctx.require(s.get_n() == nd.n, "C18|n-differs", std::to_string(s.get_n()) + " vs " + std::to_string(nd.n) + w);
    ctx.require(s.get_k() == nd.k, "C18|k-differs", std::to_string(s.get_k()) + " vs " + std::to_string(nd.k) + w);
    ctx.require(close(s.get_cumulative_weight(), nd.cum, 1e-12), "C18|cumulative-weight", hexd(s.get_cumulative_weight()) + " vs " + hexd(nd.cum) + w);
    if (nd.n == 0) { ctx.require(s.is_empty(), "C18|emptiness", w); return; }
    const double c_want = std::min<double>(nd.k, nd.cum / nd.maxw), c = s.get_c();
    ctx.require(close(c, c_want, 1e-9), "C18|expected-sample-size-c", "c=" + hexd(c) + " expected min(k, W/wmax)=" + hexd(c_want) + w);
    auto res = s.get_result();
    const double fl = std::floor(c), ce = std::ceil(c);   // literally floor(c) or ceil(c) of the value the sketch reports (exactly c when it is integral)
    // the fingerprint names the operation class after which the size went wrong, so that a recorded finding for one class does not hide another
    ctx.require(static_cast<double>(res.size()) == fl || static_cast<double>(res.size()) == ce, (std::string("C18|result-size-not-floor-or-ceil-of-c|") + (nd.merged ? "after-merge" : "updates-only")).c_str(), std::to_string(res.size()) + " items, c=" + hexd(c) + w);
    std::set<i64> seen; for (i64 id : res) { ctx.require(nd.ids.count(id) != 0, "C18|sample-not-from-input", std::to_string(id) + w); if (!nd.may_dup) ctx.require(seen.insert(id).second, "C18|sample-duplicated", std::to_string(id) + w); }
    if (nd.equal_weights && nd.n <= nd.k) ctx.require(res.size() == nd.n, "C18|equal-weights-under-k-not-all-kept", std::to_string(res.size()) + " of " + std::to_string(nd.n) + w);
    u64 it_count = 0; for (auto it = s.begin(); it != s.end(); ++it) { ctx.require(nd.ids.count(*it) != 0, "C18|iterated-item-not-from-input", w); it_count++; }
    ctx.require(static_cast<double>(it_count) == fl || static_cast<double>(it_count) == ce, (std::string("C18|iteration-size-not-floor-or-ceil-of-c|") + (nd.merged ? "after-merge" : "updates-only")).c_str(), std::to_string(it_count) + " c=" + hexd(c) + w);
  }
  void execute(const Plan& p, Ctx& ctx) override {
    alloc_state().reset_counters(); alloc_state().budget = static_cast<size_t>(1) << 31;
    SimRandom rnd(p.run_seed); RandomScope rs(rnd);
    const bool extreme = p.cfg[1] > 0;
    if (extreme) { rnd.extreme_at = p.cfg[1] * 2; rnd.extreme_value = p.cfg[2] == 0 ? 0 : p.cfg[2] == 1 ? ~0ULL : 1ULL << 63; ctx.fault("extreme_draw"); ctx.family = "ebpps<i64>+extreme_draw"; ctx.fp_suffix = "|+extreme_draw"; }
    const uint32_t k = static_cast<uint32_t>(p.cfg[0]);
    std::vector<Node> nodes(3); i64 next_id = 0;
    for (size_t i = 0; i < 3; i++) { nodes[i].k = i == 2 ? k * 2 + 1 : k; nodes[i].sk.reset(new S(nodes[i].k, talloc<int64_t>(1))); }
    int idx = 0;
    auto add = [&](Node& n, i64 id, double wt) { n.ids.insert(id); n.cum += wt; if (wt > n.maxw) n.maxw = wt; if (n.n == 0) n.w0 = wt; else if (wt != n.w0) n.equal_weights = false; n.n++; };
    for (const Step& s : p.steps) {
      ctx.begin_step(idx++, s.kind);
      Node& n = nodes[static_cast<size_t>(s.a) % nodes.size()];
      switch (s.kind) {
        case A_BATCH: { const i64 count = s.c / 64, pat = s.c % 64; for (i64 j = 0; j < count; j++) { const i64 id = next_id++; const double wt = vo_weight(id + s.b, pat); n.sk->update(id, wt); add(n, id, wt); } break; }
        case A_MERGE: { Node& src = nodes[static_cast<size_t>(s.b) % nodes.size()]; if (&src == &n) break;
          if (src.cum > n.cum) ctx.probe("merge_larger_into_smaller"); else ctx.probe("merge_smaller_into_larger");
          const double cum_before = n.sk->get_cumulative_weight(), cum_src = src.sk->get_cumulative_weight();
          if (s.c & 1) { S tmp(*src.sk); n.sk->merge(std::move(tmp)); } else n.sk->merge(*src.sk);
          ctx.require(n.sk->get_cumulative_weight() == cum_before + cum_src, "C18|merged-cumulative-weight-not-the-sum", hexd(n.sk->get_cumulative_weight()) + " vs " + hexd(cum_before) + " + " + hexd(cum_src));
          if (src.n > 0) { n.merged = true; for (i64 id : src.ids) if (!n.ids.insert(id).second) n.may_dup = true; if (src.may_dup) n.may_dup = true; n.cum += src.cum; n.maxw = std::max(n.maxw, src.maxw); if (n.n == 0) { n.w0 = src.w0; n.equal_weights = src.equal_weights; } else if (!src.equal_weights || src.w0 != n.w0) n.equal_weights = false; n.n += src.n; n.k = std::min(n.k, src.k); }
          ctx.nontrivial = true; break; }
        case A_SERDE: { auto b = n.sk->serialize(); if (s.c & 2) n.sk.reset(new S(restore_stream(ctx, b, s.c, "C18", [&](std::istream& is) { return S::deserialize(is, ds::serde<int64_t>(), talloc<int64_t>(1)); }))); else n.sk.reset(new S(S::deserialize(b.data(), b.size(), ds::serde<int64_t>(), talloc<int64_t>(1)))); ctx.fault("checkpoint_restore"); break; }
        case A_REFUSED: { int t = 0; const double bad[] = { -1.0, std::numeric_limits<double>::quiet_NaN(), std::numeric_limits<double>::infinity() };
          for (double wb : bad) { try { n.sk->update(static_cast<int64_t>(-5), wb); } catch (const std::invalid_argument&) { t++; } }
          ctx.require(t == 3, "C18|invalid-weight-not-refused", std::to_string(t)); ctx.fault("refused_op"); break; }
        case A_RESET: { n.sk->reset(); std::unique_ptr<S> keep = std::move(n.sk); uint32_t kk = n.k; n = Node(); n.k = kk; n.sk = std::move(keep); break; }   // the reset object itself is used again: it must behave as a fresh one
        case A_COPY: { Node& d = nodes[static_cast<size_t>(s.b) % nodes.size()]; if (&d != &n) { std::unique_ptr<S> c(new S(*n.sk)); d = Node(); d.sk = std::move(c); d.ids = n.ids; d.cum = n.cum; d.maxw = n.maxw; d.n = n.n; d.equal_weights = n.equal_weights; d.w0 = n.w0; d.k = n.k; d.may_dup = n.may_dup; d.merged = n.merged; } break; }
        default: break;
      }
      for (Node& x : nodes) check(ctx, x, a_step_name(s.kind));
      ctx.t(static_cast<u64>(n.n)); ctx.t(n.cum);
    }
    ctx.probe("u64_draws", rnd.u64_drawn);
    if (!alloc_state().errors.empty()) ctx.fail("C18|allocator-misuse", alloc_state().errors[0]);
  }
};

struct C18StatWorld: World {
  typedef ds::ebpps_sketch<int64_t, talloc<int64_t>> S;
  const char* name() const override { return "c18s"; }
  const char* step_name(int) const override { return "monte_carlo"; }
  std::string family_of(const Plan&) const override { return "ebpps<i64>|inclusion"; }
  Plan generate(u64 run_seed, int tier) override { Plan p; p.run_seed = run_seed; Rng r(run_seed, "cfg"); static const int ks[] = { 1, 2, 3, 4, 5, 6 };
    p.cfg = { r.pick(ks), r.range(3, 14), static_cast<i64>(r.below(8)), static_cast<i64>(r.below(1000)), tier ? 40000 : 20000 }; Step s; s.kind = 1; p.steps.push_back(s); return p; }
  void execute(const Plan& p, Ctx& ctx) override {
    alloc_state().reset_counters(); alloc_state().budget = static_cast<size_t>(1) << 30;
    const uint32_t k = static_cast<uint32_t>(p.cfg[0]); const int n = static_cast<int>(p.cfg[1]); const i64 trials = p.cfg[4];
    std::vector<double> w(static_cast<size_t>(n)); double W = 0, wmax = 0; for (int i = 0; i < n; i++) { w[static_cast<size_t>(i)] = vo_weight(p.cfg[3] + i * 7, p.cfg[2]); if (w[static_cast<size_t>(i)] > 64) w[static_cast<size_t>(i)] = 64; W += w[static_cast<size_t>(i)]; wmax = std::max(wmax, w[static_cast<size_t>(i)]); }
    std::vector<u64> hits(static_cast<size_t>(n), 0);
    ctx.begin_step(0, 1);
    for (i64 t = 0; t < trials; t++) {
      SimRandom rnd(mix(p.run_seed, static_cast<u64>(t))); RandomScope rs(rnd);
      S s(k, talloc<int64_t>(1)); for (int i = 0; i < n; i++) s.update(static_cast<int64_t>(i), w[static_cast<size_t>(i)]);
      for (int64_t id : s.get_result()) if (id >= 0 && id < n) hits[static_cast<size_t>(id)]++;
    }
    const double rho = std::min(1.0 / wmax, static_cast<double>(k) / W);
    for (int i = 0; i < n; i++) { const double pi = std::min(1.0, w[static_cast<size_t>(i)] * rho), ph = static_cast<double>(hits[static_cast<size_t>(i)]) / static_cast<double>(trials);
      // Bernstein's inequality (rigorous for every pi, also the tiny ones): P(|hits - T*pi| > t) <= 2 exp(-t^2 / (2 (T*v + t/3))) <= 1e-13 for this t
      const double L = 30.6, Tv = static_cast<double>(trials) * pi * (1 - pi), tb = L / 3 + std::sqrt(L * L / 9 + 2 * Tv * L); const double sigma = tb / static_cast<double>(trials) / 6;
      if (std::fabs(ph - pi) > 6 * sigma + 1e-9) ctx.fail("C18|inclusion-probability-not-proportional-to-weight", "item " + std::to_string(i) + " weight " + hexd(w[static_cast<size_t>(i)]) + ": included in " + std::to_string(ph) + " of draws, expected " + std::to_string(pi) + " (k=" + std::to_string(k) + ", " + std::to_string(n) + " items, " + std::to_string(trials) + " draw sequences, allowed deviation " + std::to_string(6 * sigma) + " at 1e-13)");
      ctx.check(); }
    ctx.nontrivial = true; ctx.probe("monte_carlo_streams"); ctx.probe("draw_sequences", static_cast<u64>(trials)); ctx.t(static_cast<u64>(hits[0])); ctx.t(static_cast<u64>(hits[static_cast<size_t>(n - 1)]));
  }
};

// C16 on an item type that owns memory: unions of string sketches with different k and fill, into a union whose max_k is larger than the number of
// samples (so that get_result() has to migrate marked items by decreasing k). Every sample of the result must be one of the input strings, none twice;
// n and the total weight must be the combined ones; and every block the strings took from the heap must be returned.
struct C16StrWorld: World {
  typedef ds::var_opt_sketch<std::string, talloc<std::string>> S; typedef ds::var_opt_union<std::string, talloc<std::string>> UN;
  const char* name() const override { return "c16u"; }
  const char* step_name(int) const override { return "string_union"; }
  std::string family_of(const Plan&) const override { return "varopt<string>|union"; }
  Plan generate(u64 run_seed, int) override { Plan p; p.run_seed = run_seed; Rng r(run_seed, "cfg"); static const int ks[] = { 2, 3, 5, 8, 8, 13 }; static const int mk[] = { 8, 16, 32, 64 };
    p.cfg = { r.pick(mk), static_cast<i64>(r.below(3)) + 2 };
    for (i64 i = 0; i < p.cfg[1]; i++) { Step s; s.kind = 1; s.a = r.pick(ks); static const i64 cnt[] = { 0, 1, 3, 5, 12, 40, 90, 200 }; s.b = r.pick(cnt); s.c = static_cast<i64>(r.below(4)) * 8 + static_cast<i64>(r.below(8)); p.steps.push_back(s); }   // s.c: heavy items (high bits), weight pattern (low bits)
    return p; }
  void execute(const Plan& p, Ctx& ctx) override {
    alloc_state().reset_counters(); alloc_state().budget = static_cast<size_t>(1) << 30;
    SimRandom rnd(p.run_seed); RandomScope rs(rnd);
    const long long tracked_before = g_tracked_global_live; const AllocMark mark;
    // the harness's own bookkeeping is built before the tracked region, so that every block taken inside it belongs to the library's objects
    struct In { std::string name; double w; }; std::vector<std::vector<In>> feed(p.steps.size()); std::map<std::string, int> input; std::string err_fp, err_detail; err_fp.reserve(128); err_detail.reserve(256);
    for (size_t idx = 0; idx < p.steps.size(); idx++) { const Step& s = p.steps[idx]; char buf[64];
      for (i64 i = 0; i < s.b; i++) { std::snprintf(buf, sizeof(buf), "stream-%d-light-item-%04lld", static_cast<int>(idx), static_cast<long long>(i)); const double w0 = vo_weight(i + static_cast<i64>(idx) * 1000, s.c & 7); feed[idx].push_back(In{ buf, w0 > 64 ? 64 : w0 }); input[buf] = static_cast<int>(idx); }
      for (i64 i = 0; i < (s.c >> 3); i++) { std::snprintf(buf, sizeof(buf), "stream-%d-HEAVY-item-%04lld", static_cast<int>(idx), static_cast<long long>(i)); feed[idx].push_back(In{ buf, 500.0 + 100.0 * static_cast<double>(i) + static_cast<double>(idx) }); input[buf] = static_cast<int>(idx); } }
    double total = 0; u64 n = 0; bool threw = false;
    {
      TrackGlobalNew tg;
      UN u(static_cast<uint32_t>(p.cfg[0]), talloc<std::string>(1));
      int idx = 0;
      for (const Step& s : p.steps) {
        ctx.begin_step(idx, s.kind);
        S sk(static_cast<uint32_t>(s.a), ds::resize_factor::X8, talloc<std::string>(1));
        for (const In& in : feed[static_cast<size_t>(idx)]) { sk.update(in.name, in.w); total += in.w; n++; }
        std::unique_ptr<S> rp; try { if (idx & 1) u.update(std::move(sk)); else u.update(sk); rp.reset(new S(u.get_result())); } catch (const std::logic_error&) { ctx.probe("union_get_result_threw"); threw = true; break; }   // the recorded C16 finding (reported by world c16); what its unwinding leaves behind is not judged here
        S& r = *rp;
        if (r.get_n() != n) { err_fp = "C16|varopt<string>|union|n-differs"; break; }
        double sum = 0; std::set<std::string> seen;
        for (auto it = r.begin(); it != r.end(); ++it) { const std::string& name = (*it).first; sum += (*it).second;
          auto f = input.find(name);
          if (f == input.end() || f->second > idx) { err_fp = "C16|varopt<string>|union|sample-not-from-input"; err_detail = name; break; }
          if (!seen.insert(name).second) { err_fp = "C16|varopt<string>|union|sample-duplicated"; err_detail = name; break; } }
        if (err_fp.empty() && n > 0 && !close(sum, total, 1e-9)) err_fp = "C16|varopt<string>|union|adjusted-weights-do-not-sum-to-total";
        if (!err_fp.empty()) break;
        ctx.check(); ctx.t(static_cast<u64>(r.get_num_samples()));
        idx++;
      }
    }
    if (!err_fp.empty()) ctx.fail(err_fp, "sample \"" + err_detail + "\"");
    if (!threw && !mark.balanced()) ctx.fail("C16|varopt<string>|union|memory-left-allocated", mark.diff());
    if (!threw && g_tracked_global_live != tracked_before) ctx.fail("C16|varopt<string>|union|string-buffers-left-allocated", std::to_string(g_tracked_global_live - tracked_before) + " block(s) from ::operator new (item strings) never released");
    if (!alloc_state().errors.empty()) ctx.fail("C16|allocator-misuse", alloc_state().errors[0]);
    ctx.nontrivial = true; ctx.probe("string_unions");
  }
};

// C16, last clause: over the sampling randomness every subset-sum estimate is unbiased. One small weighted stream per run is replayed under
// many library draw sequences owned by the simulator; the per-item estimate (adjusted weight if sampled, else 0) must average to the item's
// weight within an empirical-Bernstein bound (Maurer-Pontil) at 1e-13 with the rigorous range bound R = total weight.
struct C16StatWorld: World {
  typedef ds::var_opt_sketch<int64_t, talloc<int64_t>> S; typedef ds::var_opt_union<int64_t, talloc<int64_t>> UN;
  const char* name() const override { return "c16s"; }
  const char* step_name(int) const override { return "monte_carlo"; }
  std::string family_of(const Plan& p) const override { static const char* m[] = { "varopt<i64>|unbiased|single", "varopt<i64>|unbiased|union", "varopt<i64>|unbiased|restored" }; return m[p.cfg.empty() ? 0 : p.cfg[5] % 3]; }
  Plan generate(u64 run_seed, int tier) override { Plan p; p.run_seed = run_seed; Rng r(run_seed, "cfg"); static const int ks[] = { 1, 2, 3, 4, 5, 7 };
    const i64 k = r.pick(ks); p.cfg = { k, r.range(k + 1, 22), static_cast<i64>(r.below(8)), static_cast<i64>(r.below(1000)), tier ? 100000 : 40000, static_cast<i64>(r.below(3)), r.pick(ks) }; Step s; s.kind = 1; p.steps.push_back(s); return p; }
  void execute(const Plan& p, Ctx& ctx) override {
    alloc_state().reset_counters(); alloc_state().budget = static_cast<size_t>(1) << 30;
    const uint32_t k = static_cast<uint32_t>(p.cfg[0]), k2 = static_cast<uint32_t>(p.cfg[6]); const int n = static_cast<int>(p.cfg[1]), mode = static_cast<int>(p.cfg[5] % 3); const i64 trials = p.cfg[4];
    std::vector<double> w(static_cast<size_t>(n)); double W = 0; for (int i = 0; i < n; i++) { double x = vo_weight(p.cfg[3] + i * 7, p.cfg[2]); if (x > 64) x = 64; w[static_cast<size_t>(i)] = x; W += x; }
    std::vector<double> sum(static_cast<size_t>(n), 0), sq(static_cast<size_t>(n), 0); double odd_sum = 0, odd_sq = 0, odd_true = 0; for (int i = 1; i < n; i += 2) odd_true += w[static_cast<size_t>(i)];
    ctx.begin_step(0, 1); i64 done = 0; bool refused = false;
    for (i64 t = 0; t < trials && !refused; t++) {
      SimRandom rnd(mix(p.run_seed, static_cast<u64>(t))); RandomScope rs(rnd);
      std::vector<double> est(static_cast<size_t>(n), 0);
      auto read = [&](const S& sk) { for (auto it = sk.begin(); it != sk.end(); ++it) { const int64_t id = (*it).first; if (id >= 0 && id < n) est[static_cast<size_t>(id)] += (*it).second; } };
      if (mode == 1) {   // the stream is split over two sketches of different k, united
        S a(k, ds::resize_factor::X8, talloc<int64_t>(1)), b(k2, ds::resize_factor::X8, talloc<int64_t>(1)); const int cut = n / 2;
        for (int i = 0; i < n; i++) (i < cut ? a : b).update(static_cast<int64_t>(i), w[static_cast<size_t>(i)]);
        UN u(std::max(k, k2), talloc<int64_t>(1)); u.update(a); u.update(b);
        try { S r = u.get_result(); read(r); } catch (const std::exception&) { refused = true; ctx.probe("union_get_result_threw"); break; }   // the recorded C16 finding; reported by world c16
      } else if (mode == 2) {   // checkpoint / restore in mid-stream
        S a(k, ds::resize_factor::X8, talloc<int64_t>(1)); const int cut = (n * 2) / 3;
        for (int i = 0; i < cut; i++) a.update(static_cast<int64_t>(i), w[static_cast<size_t>(i)]);
        auto img = a.serialize(); S b = S::deserialize(img.data(), img.size(), ds::serde<int64_t>(), talloc<int64_t>(1));
        for (int i = cut; i < n; i++) b.update(static_cast<int64_t>(i), w[static_cast<size_t>(i)]);
        read(b);
      } else { S a(k, ds::resize_factor::X8, talloc<int64_t>(1)); for (int i = 0; i < n; i++) a.update(static_cast<int64_t>(i), w[static_cast<size_t>(i)]); read(a);
        auto odd = a.estimate_subset_sum([](int64_t x) { return (x & 1) != 0; }); odd_sum += odd.estimate; odd_sq += odd.estimate * odd.estimate; }
      for (int i = 0; i < n; i++) { sum[static_cast<size_t>(i)] += est[static_cast<size_t>(i)]; sq[static_cast<size_t>(i)] += est[static_cast<size_t>(i)] * est[static_cast<size_t>(i)]; }
      done++;
    }
    if (!refused) {
      const double T = static_cast<double>(done), L = 31.0;
      auto verdict = [&](double s1, double s2, double truth, const std::string& what) {
        const double mean = s1 / T, var = std::max(0.0, (s2 - s1 * s1 / T) / (T - 1)), tol = std::sqrt(2 * var * L / T) + 7 * W * L / (3 * (T - 1));
        if (std::fabs(mean - truth) > tol + 1e-9 * W) ctx.fail("C16|estimate-biased-over-the-sampling-randomness", what + ": mean estimate " + std::to_string(mean) + " over " + std::to_string(done) + " draw sequences, true weight " + std::to_string(truth) + ", allowed deviation " + std::to_string(tol) + " (k=" + std::to_string(k) + (mode == 1 ? "/" + std::to_string(k2) : std::string()) + ", " + std::to_string(n) + " items, total " + std::to_string(W) + ")");
        ctx.check(); };
      for (int i = 0; i < n; i++) verdict(sum[static_cast<size_t>(i)], sq[static_cast<size_t>(i)], w[static_cast<size_t>(i)], "item " + std::to_string(i));
      if (mode == 0) verdict(odd_sum, odd_sq, odd_true, "subset of odd items");
      ctx.nontrivial = true; ctx.probe("monte_carlo_streams"); ctx.probe("draw_sequences", static_cast<u64>(done));
    }
    ctx.t(static_cast<u64>(done)); ctx.t(static_cast<u64>(sum[0] * 1024)); ctx.t(static_cast<u64>(sum[static_cast<size_t>(n - 1)] * 1024));
    if (!alloc_state().errors.empty()) ctx.fail("C16|allocator-misuse", alloc_state().errors[0]);
  }
};

// ================================================================== C20 density
template<typename T> struct gauss { template<typename V1, typename V2> T operator()(const V1& a, const V2& b) const { double acc = 0; for (size_t i = 0; i < a.size(); i++) { double d = static_cast<double>(a[i]) - static_cast<double>(b[i]); acc += d * d; } return static_cast<T>(std::exp(-acc)); } };
// a user kernel with state: the instance handed to the constructor (scale 0.25) differs from a default-constructed one (scale 1), and is the one that must be used
template<typename T> struct laplace { double scale; laplace(): scale(1.0) {} explicit laplace(double s_): scale(s_) {}
  template<typename V1, typename V2> T operator()(const V1& a, const V2& b) const { double acc = 0; for (size_t i = 0; i < a.size(); i++) acc += std::fabs(static_cast<double>(a[i]) - static_cast<double>(b[i])); return static_cast<T>(1.0 / (1.0 + scale * acc)); } };
template<typename K> struct kernel_instance { static K make() { return K(); } };
template<typename T> struct kernel_instance<laplace<T>> { static laplace<T> make() { return laplace<T>(0.25); } };
template<typename T, typename K> struct DnExec {
  typedef ds::density_sketch<T, K, talloc<T>> S; typedef typename S::Vector V;
  struct Node { std::unique_ptr<S> sk; std::vector<std::vector<T>> pts; bool merged = false; };   // merged: a merge is part of this sketch's history (a merge may compact earlier)
  Ctx& ctx; const Plan& p; std::string fam; uint16_t k; uint32_t dim; K kern = kernel_instance<K>::make();
  DnExec(Ctx& c, const Plan& pl, const char* f): ctx(c), p(pl), fam(f) { k = static_cast<uint16_t>(p.cfg[2]); dim = static_cast<uint32_t>(p.cfg[3]); }
  std::string fp(const char* cls) const { return "C20|" + fam + "|" + cls; }
  std::vector<T> point(i64 v) const { std::vector<T> x(dim); for (uint32_t i = 0; i < dim; i++) { u64 s = static_cast<u64>(v * 4 + i); x[i] = static_cast<T>(static_cast<double>(splitmix64(s) % 4096) / 1024.0 - 2.0); } return x; }
  static std::string pstr(const std::vector<T>& x) { std::string s; for (T c : x) s += hexd(c) + ","; return s; }
  void check(Node& n, const char* after, i64 salt) {
    const S& s = *n.sk; const std::string w = std::string(" after ") + after;
    ctx.require(s.get_n() == n.pts.size(), fp("n-differs").c_str(), std::to_string(s.get_n()) + " vs " + std::to_string(n.pts.size()) + w);
    ctx.require(s.is_empty() == n.pts.empty(), fp("emptiness").c_str(), w);
    std::set<std::string> inputs; for (auto& x : n.pts) inputs.insert(pstr(x));
    u64 cnt = 0, wsum = 0, maxw = 1; bool any_heavy = false;
    for (auto it = s.begin(); it != s.end(); ++it) { cnt++; const u64 wt = (*it).second; wsum += wt; if (wt > maxw) maxw = wt; if (wt > 1) any_heavy = true;
      ctx.require(wt != 0 && (wt & (wt - 1)) == 0, fp("weight-not-power-of-two").c_str(), std::to_string(wt) + w);
      std::vector<T> pt((*it).first.begin(), (*it).first.end()); ctx.require(inputs.count(pstr(pt)) != 0, fp("retained-point-not-from-input").c_str(), w);
      if (cnt > static_cast<u64>(s.get_num_retained()) + 8) ctx.fail(fp("iterator-runs-past-end"), w); }
    ctx.require(cnt == s.get_num_retained(), fp("iteration-count-vs-num-retained").c_str(), std::to_string(cnt) + " vs " + std::to_string(s.get_num_retained()) + w);
    int lobs = 0; while ((1ULL << lobs) < maxw) lobs++; lobs += 1;
    ctx.require(s.get_num_retained() <= static_cast<u64>(k) * static_cast<u64>(lobs + 1), fp("retained-above-k-times-levels").c_str(), std::to_string(s.get_num_retained()) + " k=" + std::to_string(k) + " levels>=" + std::to_string(lobs) + w);
    const bool compacted = n.pts.size() > cnt || any_heavy;
    if (compacted) ctx.require(s.is_estimation_mode(), fp("estimation-mode-false-after-compaction").c_str(), w);
    if (n.pts.empty()) { bool t = false; try { s.get_estimate(point(1)); } catch (const std::exception&) { t = true; } ctx.require(t, fp("empty-sketch-estimate-not-rejected").c_str(), w); return; }
    const K& kernel = kern;
    for (int q = 0; q < 3; q++) { std::vector<T> qp = point(salt + q * 1000 + 77); const T e = s.get_estimate(qp);
      ctx.require(std::isfinite(e) && e >= 0, fp("estimate-not-finite-nonnegative").c_str(), hexd(e) + w);
      if (!s.is_estimation_mode()) { double acc = 0; for (auto& x : n.pts) acc += static_cast<double>(kernel(x, qp)); acc /= static_cast<double>(n.pts.size());
        ctx.require(close(static_cast<double>(e), acc, sizeof(T) == 4 ? 1e-4 : 1e-12) || std::fabs(static_cast<double>(e) - acc) < (sizeof(T) == 4 ? 1e-6 : 1e-14), fp("exact-mode-estimate-not-kernel-mean").c_str(), hexd(e) + " vs " + hexd(acc) + w); ctx.probe("exact_mode_estimate_checked"); } }
    if (s.is_estimation_mode()) ctx.probe("estimation_mode");
  }
  void run() {
    SimRandom rnd(p.run_seed); rnd.bit_mode = static_cast<int>(p.cfg[4]) & 3; RandomScope rs(rnd);
    if (rnd.bit_mode) ctx.fault("coin_adversary");
    std::vector<Node> nodes(3); for (Node& n : nodes) n.sk.reset(new S(k, dim, kern, talloc<T>(1)));
    int idx = 0; i64 next = 0;
    for (const Step& s : p.steps) {
      ctx.begin_step(idx++, s.kind);
      Node& n = nodes[static_cast<size_t>(s.a) % nodes.size()];
      switch (s.kind) {
        case A_BATCH: { const i64 count = std::min<i64>(s.c / 64, 400); for (i64 j = 0; j < count; j++) { std::vector<T> x = point(s.b * 100000 + next++); V v(x.begin(), x.end(), talloc<T>(1)); if (j & 1) n.sk->update(std::move(v)); else n.sk->update(v); n.pts.push_back(x); } break; }
        case A_MERGE: { Node& src = nodes[static_cast<size_t>(s.b) % nodes.size()]; if (&src == &n) break;
          if (s.c & 1) { S tmp(*src.sk); n.sk->merge(std::move(tmp)); } else n.sk->merge(*src.sk);
          n.pts.insert(n.pts.end(), src.pts.begin(), src.pts.end()); n.merged = true; ctx.nontrivial = true; ctx.probe("merge"); break; }
        case A_SERDE: { auto b = n.sk->serialize();
          if (s.c & 2) n.sk.reset(new S(restore_stream(ctx, b, s.c, "C20", [&](std::istream& is) { return S::deserialize(is, kern, talloc<T>(1)); })));
          else n.sk.reset(new S(S::deserialize(b.data(), b.size(), kern, talloc<T>(1)))); ctx.fault("checkpoint_restore"); break; }
        case A_REFUSED: {
          // half of the refusals are placed on the capacity boundary: the sketch is topped up to exactly k points first
          if ((s.c & 4) && !n.merged && n.pts.size() < k) { while (n.pts.size() < k) { std::vector<T> x = point(s.b * 100000 + next++); V v0(x.begin(), x.end(), talloc<T>(1)); n.sk->update(v0); n.pts.push_back(x); } ctx.probe("refusal_on_capacity_boundary"); }
          // a refused operation has no effect: the complete observation (n, retained points with weights, mode, estimate) is the same before and after
          auto snapshot = [&]() { std::string o = std::to_string(n.sk->get_n()) + "/" + std::to_string(n.sk->get_num_retained()) + "/" + std::to_string(n.sk->is_estimation_mode()) + ":"; std::vector<std::string> e;
            for (auto it = n.sk->begin(); it != n.sk->end(); ++it) { std::vector<T> pt((*it).first.begin(), (*it).first.end()); e.push_back(pstr(pt) + "*" + std::to_string((*it).second)); } std::sort(e.begin(), e.end()); for (auto& x : e) o += x + ";";
            if (!n.pts.empty()) o += hexd(n.sk->get_estimate(point(s.b + 5))); return o; };
          const std::string before = snapshot();
          std::vector<T> bad(dim + 1, static_cast<T>(1)); V v(bad.begin(), bad.end(), talloc<T>(1)); bool t = false; try { n.sk->update(v); } catch (const std::invalid_argument&) { t = true; }
          const std::string after_update = snapshot();
          S other(k, dim + 1, kern, talloc<T>(1)); other.update(v); bool t2 = false; try { n.sk->merge(other); } catch (const std::invalid_argument&) { t2 = true; }
          ctx.require(t && t2, fp("wrong-dimension-not-refused").c_str(), std::to_string(t) + std::to_string(t2));
          if (after_update != before) ctx.fail(fp("refused-update-changed-the-sketch"), "before " + before.substr(0, 60) + " after " + after_update.substr(0, 60));
          if (snapshot() != before) ctx.fail(fp("refused-merge-changed-the-sketch"), "");
          ctx.fault("refused_op"); break; }
        case A_ALLOCFAIL: {
          // an allocation fails inside update() on the path that cannot compact (num_retained below k times a lower bound of the level count): the caller catches
          // bad_alloc and keeps the sketch. Either outcome is legal (point taken or not); the model follows get_n(), and every stated invariant is judged on that state.
          u64 maxw = 1; for (auto it = n.sk->begin(); it != n.sk->end(); ++it) maxw = std::max<u64>(maxw, (*it).second);
          int lv = 1; while ((1ULL << (lv - 1)) < maxw) lv++;
          if (n.sk->get_num_retained() + 1 >= static_cast<u64>(k) * static_cast<u64>(lv)) break;
          std::vector<T> x = point(s.b * 100000 + next++); V v(x.begin(), x.end(), talloc<T>(1)); const u64 n0 = n.sk->get_n(); bool threw = false;
          alloc_state().fail_after = (s.c >> 1) & 1;
          try { if (s.c & 1) n.sk->update(std::move(v)); else n.sk->update(v); } catch (const std::bad_alloc&) { threw = true; }
          alloc_state().fail_after = -1;
          if (threw) { ctx.fault("alloc_fail_in_update"); ctx.nontrivial = true; }
          const u64 n1 = n.sk->get_n();
          if (!threw) { n.pts.push_back(x); break; }
          if (n1 == n0 + 1) { n.pts.push_back(x); ctx.probe("failed_update_counted"); } else ctx.probe("failed_update_not_counted");
          break; }
        case A_COPY: { Node& d = nodes[static_cast<size_t>(s.b) % nodes.size()]; if (&d != &n) { d.sk.reset(new S(*n.sk)); d.pts = n.pts; d.merged = n.merged; } break; }
        default: break;
      }
      for (Node& x : nodes) check(x, a_step_name(s.kind), s.b);
      ctx.t(static_cast<u64>(n.pts.size())); ctx.t(static_cast<u64>(n.sk->get_num_retained()));
    }
  }
};
struct C20World: World {
  const char* name() const override { return "c20"; }
  const char* step_name(int k) const override { return a_step_name(k); }
  std::string family_of(const Plan& p) const override { return p.cfg.empty() || p.cfg[0] == 0 ? "density<double>" : "density<float>"; }
  Plan generate(u64 run_seed, int tier) override { Rng rc(run_seed, "cfg");
    return gen_generic(run_seed, tier, { static_cast<i64>(rc.below(2)), static_cast<i64>(rc.below(2)), rc.range(2, 16), rc.range(1, 4), rc.chance(1, 5) ? 1 + static_cast<i64>(rc.below(3)) : 0 }, 3, { {A_BATCH, 50}, {A_MERGE, 22}, {A_SERDE, 8}, {A_REFUSED, 6}, {A_COPY, 6}, {A_QUERY, 8}, {A_ALLOCFAIL, 8} }, 400); }
  void execute(const Plan& p, Ctx& ctx) override {
    alloc_state().reset_counters(); alloc_state().budget = static_cast<size_t>(1) << 31;
    const int sel = static_cast<int>(p.cfg[0] * 2 + p.cfg[1]);
    switch (sel) { case 0: DnExec<double, gauss<double>>(ctx, p, "density<double>").run(); break; case 1: DnExec<double, laplace<double>>(ctx, p, "density<double,custom-kernel>").run(); break;
      case 2: DnExec<float, gauss<float>>(ctx, p, "density<float>").run(); break; default: DnExec<float, laplace<float>>(ctx, p, "density<float,custom-kernel>").run(); break; }
    if (!alloc_state().errors.empty()) ctx.fail("C20|allocator-misuse", alloc_state().errors[0]);
  }
};

struct Init { Init() { static C12World a; static C14World b; static C17World c; static C16World d; static C18World e; static C20World f; static C18StatWorld g; static C16StatWorld h; static C16StrWorld i; for (World* w : std::vector<World*>{ &a, &b, &c, &d, &e, &f, &g, &h, &i }) registry().push_back(w); } } init_;
} // namespace

int main(int argc, char** argv) { sim::selftest_hashes(); return sim::sim_main(argc, argv); }
