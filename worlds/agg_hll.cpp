// world `agg`, HLL part: C03 (content = per-slot max of coupons in every mode/type) and C04 (union = sketch of the concatenated streams).
#include "../sim/driver.hpp"
#include "../sim/canon.hpp"
#include <hll.hpp>

using namespace sim;
namespace ds = datasketches;

namespace {
typedef talloc<uint8_t> A;
typedef ds::hll_sketch_alloc<A> S;
typedef ds::hll_union_alloc<A> UN;

uint32_t coupon_of(const Canon& c) {
  H128 h = murmur3_x64_128(c.data, c.len, ds::DEFAULT_SEED);
  int lz = clz64(h.h2); uint32_t value = static_cast<uint32_t>((lz > 62 ? 62 : lz) + 1);
  return (value << 26) | static_cast<uint32_t>(h.h1 & 0x3ffffff);
}
uint32_t coupon_i64(i64 v) { return coupon_of(canon_i64(v)); }

// what a sketch logically holds, read from the HLL_8 updatable image of a copy (public API only)
struct Content { int mode = -1; int lg_k = 0; std::vector<uint32_t> coupons; std::vector<uint8_t> regs; };
Content content_of(const S& s) {
  S h8(s, ds::HLL_8);
  auto img = h8.serialize_updatable();
  Content c; c.lg_k = img[3]; c.mode = img[7] & 3;
  if (c.mode == 2) c.regs.assign(img.begin() + 40, img.begin() + 40 + (static_cast<std::ptrdiff_t>(1) << c.lg_k));
  else { size_t off = c.mode == 0 ? 8 : 12; for (size_t i = off; i + 4 <= img.size(); i += 4) { uint32_t v = load32le(img.data() + i); if (v) c.coupons.push_back(v); } std::sort(c.coupons.begin(), c.coupons.end()); }
  return c;
}
int mode_of(const S& s) { auto img = s.serialize_updatable(); return img[7] & 3; }
std::vector<uint8_t> model_regs(const std::set<uint32_t>& coupons, int lg_k) {
  std::vector<uint8_t> r(static_cast<size_t>(1) << lg_k, 0); const uint32_t mask = (1u << lg_k) - 1;
  for (uint32_t c : coupons) { uint8_t v = static_cast<uint8_t>(c >> 26); uint8_t& x = r[(c & 0x3ffffff) & mask]; if (v > x) x = v; }
  return r;
}
bool close(double a, double b, double rel) { return a == b || std::fabs(a - b) <= rel * std::max(std::fabs(a), std::fabs(b)); }

void check_content(Ctx& ctx, const S& s, const std::set<uint32_t>& model, const std::string& fp_prefix, const std::string& who, bool bounds_verdict = true) {
  Content c = content_of(s);
  ctx.require(s.is_empty() == model.empty(), (fp_prefix + "|emptiness").c_str(), who + " is_empty=" + std::to_string(s.is_empty()) + " model coupons=" + std::to_string(model.size()));
  if (c.mode == 2) {
    std::vector<uint8_t> want = model_regs(model, c.lg_k);
    if (c.regs != want) {
      size_t i = 0; while (i < want.size() && c.regs[i] == want[i]) i++;
      ctx.fail(fp_prefix + (c.regs[i] < want[i] ? "|register-too-small" : "|register-too-large"), who + " lg_k=" + std::to_string(c.lg_k) + " slot " + std::to_string(i) + " holds " + std::to_string(c.regs[i]) + " model " + std::to_string(want[i]));
    }
    ctx.probe("hll_mode_checked");
  } else {
    std::vector<uint32_t> want(model.begin(), model.end());
    if (c.coupons != want) ctx.fail(fp_prefix + "|coupon-set-differs", who + " mode=" + std::to_string(c.mode) + " holds " + std::to_string(c.coupons.size()) + " coupons, model " + std::to_string(want.size()));
    ctx.probe(c.mode == 0 ? "list_mode_checked" : "set_mode_checked");
  }
  ctx.check();
  for (int sd = 1; sd <= 3; sd++) {
    double lb = s.get_lower_bound(sd), est = s.get_estimate(), ub = s.get_upper_bound(sd);
    // C03 states lb <= est <= ub for sketches built from streams; C04 states nothing about bounds of union results, so there it is only a probe
    if (bounds_verdict) ctx.require(lb <= est && est <= ub, (fp_prefix + "|bounds-order").c_str(), who + " " + hexd(lb) + " " + hexd(est) + " " + hexd(ub));
    else if (!(lb <= est && est <= ub)) ctx.probe("union_result_bounds_cross_estimate");
  }
}

// ================================================================== C03
enum { H_BATCH = 1, H_UPD = 2, H_CONVERT = 3, H_QUERY = 4, H_SERDE = 5, H_RESET = 6, H_COPY = 7, H_FLAT = 8, H_TWINS = 9, H_SPIKES = 10 };
struct C03World: World {
  const char* name() const override { return "c03"; }
  const char* step_name(int k) const override { static const char* n[] = { "?", "batch", "update", "convert", "query", "serde", "reset", "copy", "flat_fill", "twin_coupons", "spikes" }; return (k >= 1 && k <= 10) ? n[k] : "step"; }
  std::string family_of(const Plan&) const override { return "hll_sketch"; }
  Plan generate(u64 run_seed, int tier) override {
    Plan p; p.run_seed = run_seed; Rng rc(run_seed, "cfg"), rp(run_seed, "plan");
    int lg_k = static_cast<int>(rc.chance(1, 3) ? rc.range(4, 7) : rc.range(4, tier ? 14 : 12));
    p.cfg = { lg_k };
    const i64 k = static_cast<i64>(1) << lg_k;
    int n = static_cast<int>(rp.range(2, tier ? 30 : 14));
    for (int i = 0; i < n; i++) {
      Step s; unsigned roll = static_cast<unsigned>(rp.below(100));
      if (roll < 50) { s.kind = H_BATCH; s.a = static_cast<i64>(rp.below(1000000));
        const i64 cnt[] = { 1, 3, 7, 8, 9, k / 8, k / 4, 3 * k / 32 + 1, k / 2, k, 2 * k, 4 * k, 20 * k }; s.b = std::max<i64>(1, rp.pick(cnt)); if (!tier && s.b > 40000) s.b = 40000; s.c = static_cast<i64>(rp.below(4)); }
      else if (roll < 65) { s.kind = H_UPD; s.a = static_cast<i64>(rp.below(100)); s.b = static_cast<i64>(rp.below(N_TYPES)); }
      else if (roll < 78) { s.kind = H_CONVERT; s.a = static_cast<i64>(rp.below(8)); s.b = static_cast<i64>(rp.below(3)); }
      else if (roll < 88) s.kind = H_QUERY;
      else if (roll < 94) { s.kind = H_SERDE; s.a = static_cast<i64>(rp.below(8)); s.b = static_cast<i64>(rp.below(2)); }
      else if (roll < 97) { s.kind = H_COPY; s.a = static_cast<i64>(rp.below(8)); s.b = static_cast<i64>(rp.below(8)); }
      else if (rp.chance(1, 3) && lg_k <= 8) { s.kind = H_FLAT; s.a = static_cast<i64>(rp.below(1000000)); s.b = static_cast<i64>(rp.below(3)); }
      else if (rp.chance(1, 2)) { s.kind = H_TWINS; s.a = static_cast<i64>(rp.below(1000000)); s.b = static_cast<i64>(rp.below(8)); }
      else if (rp.chance(1, 2)) { s.kind = H_SPIKES; s.a = static_cast<i64>(rp.below(1000)); s.b = static_cast<i64>(rp.below(14)); }
      else s.kind = H_RESET;
      p.steps.push_back(s);
    }
    return p;
  }
  void execute(const Plan& p, Ctx& ctx) override {
    alloc_state().reset_counters(); alloc_state().budget = static_cast<size_t>(1) << 31;
    const uint8_t lg_k = static_cast<uint8_t>(p.cfg[0]);
    // 0..2: HLL_4/6/8 lazily grown, original order; 3,4: started full size; 5: permuted order; 6: with redelivered batches; 7: permuted + duplicates, HLL_4
    std::vector<S> sk;
    sk.emplace_back(lg_k, ds::HLL_4, false, A(1)); sk.emplace_back(lg_k, ds::HLL_6, false, A(1)); sk.emplace_back(lg_k, ds::HLL_8, false, A(1));
    sk.emplace_back(lg_k, ds::HLL_4, true, A(1)); sk.emplace_back(lg_k, ds::HLL_8, true, A(1));
    sk.emplace_back(lg_k, ds::HLL_6, false, A(1)); sk.emplace_back(lg_k, ds::HLL_8, false, A(1)); sk.emplace_back(lg_k, ds::HLL_4, false, A(1));
    std::vector<bool> same_order = { true, true, true, true, true, false, false, false };
    std::set<uint32_t> model;
    std::vector<std::pair<i64, i64>> batches;
    int idx = 0;
    for (const Step& s : p.steps) {
      ctx.begin_step(idx++, s.kind);
      switch (s.kind) {
        case H_BATCH: {
          batches.push_back(std::make_pair(s.a, s.b));
          for (i64 j = 0; j < s.b; j++) { i64 v = s.a + j; model.insert(coupon_i64(v)); for (size_t i = 0; i < 5; i++) sk[i].update(static_cast<int64_t>(v)); sk[6].update(static_cast<int64_t>(v)); }
          for (i64 j = 0; j < s.b; j++) { i64 v = s.a + (j * 7919 + 13) % s.b; sk[5].update(static_cast<int64_t>(v)); sk[7].update(static_cast<int64_t>(v)); if (j % 3 == 0) sk[7].update(static_cast<int64_t>(v)); }
          ctx.fault("reorder");
          if (s.c == 0 && !batches.empty()) { auto b = batches[static_cast<size_t>(s.a) % batches.size()]; for (i64 j = 0; j < b.second; j++) { sk[6].update(static_cast<int64_t>(b.first + j)); sk[7].update(static_cast<int64_t>(b.first + b.second - 1 - j)); } ctx.fault("dup"); }
          break;
        }
        case H_UPD: {
          Canon c; for (size_t i = 0; i < sk.size(); i++) c = typed_update(sk[i], s.a, static_cast<int>(s.b) % N_TYPES);
          if (!c.ignored) model.insert(coupon_of(c)); else ctx.probe("empty_string_ignored");
          break;
        }
        case H_CONVERT: { size_t i = static_cast<size_t>(s.a) % sk.size(); S conv(sk[i], static_cast<ds::target_hll_type>(s.b % 3)); ctx.require(conv.get_target_type() == static_cast<ds::target_hll_type>(s.b % 3), "C03|convert-target-type", ""); sk[i] = std::move(conv); ctx.probe("type_conversion"); ctx.nontrivial = true; break; }
        case H_SERDE: {
          size_t i = static_cast<size_t>(s.a) % sk.size();
          auto b = s.b ? sk[i].serialize_compact() : sk[i].serialize_updatable();
          S back = S::deserialize(b.data(), b.size(), A(1)); sk[i] = std::move(back); ctx.probe("serde_continue"); ctx.nontrivial = true; break;
        }
        case H_COPY: { size_t i = static_cast<size_t>(s.a) % sk.size(), j = static_cast<size_t>(s.b) % sk.size(); if (same_order[i] == same_order[j] && (i < 3) == (j < 3) && (i >= 3 && i < 5) == (j >= 3 && j < 5)) { ds::target_hll_type t = sk[j].get_target_type(); sk[j] = S(sk[i], t); } ctx.nontrivial = true; break; }
        case H_RESET: { for (S& x : sk) x.reset(); model.clear(); batches.clear(); break; }
        case H_SPIKES: {   // adversarial stream: 2..15 inputs whose register value is 16 or more (found once per process by searching the independent hash), in different slots:
          // in HLL_4 each is an exception of the 4-bit array, enough of them make the exception table grow
          static std::vector<i64> spikes; if (spikes.empty()) for (i64 x = 1; spikes.size() < 24 && x < 100000000; x++) if ((coupon_i64(x) >> 26) >= 16) spikes.push_back(x);
          const size_t cnt = 2 + static_cast<size_t>(s.b), from = static_cast<size_t>(s.a) % spikes.size();
          for (size_t q = 0; q < cnt && q < spikes.size(); q++) { const i64 x = spikes[(from + q) % spikes.size()]; model.insert(coupon_i64(x)); for (S& sx : sk) sx.update(static_cast<int64_t>(x)); }
          ctx.probe("spikes"); ctx.nontrivial = true; break; }
        case H_TWINS: {   // adversarial stream: after a reset, two inputs whose coupons share all 26 address bits and differ in the value (found by a birthday
          // search on the independent hash), the smaller value first, among the first few distinct coupons; both coupons are content
          for (S& x : sk) x.reset(); model.clear(); batches.clear();
          std::map<uint32_t, i64> by_addr; i64 tx = 0, ty = 0; bool found = false;
          for (i64 x = s.a * 1000003; !found && x < s.a * 1000003 + 200000; x++) { const uint32_t c = coupon_i64(x); auto it = by_addr.find(c & 0x3ffffff);
            if (it == by_addr.end()) by_addr[c & 0x3ffffff] = x; else if ((coupon_i64(it->second) >> 26) != (c >> 26)) { tx = it->second; ty = x; found = true; } }
          if (!found) break;
          if ((coupon_i64(tx) >> 26) > (coupon_i64(ty) >> 26)) std::swap(tx, ty);
          std::vector<i64> seq; for (i64 f = 0; f < s.b % 4; f++) seq.push_back(s.a + 7 + f); seq.push_back(tx); if (s.b & 4) seq.push_back(s.a + 99); seq.push_back(ty);
          for (i64 x : seq) { model.insert(coupon_i64(x)); for (S& sx : sk) sx.update(static_cast<int64_t>(x)); }
          ctx.probe("twin_coupons"); ctx.nontrivial = true; break; }
        case H_FLAT: {   // adversarial stream: after a reset, exactly one input per slot, all with the same register value v (1..3), found by searching the
          // independent hash; every register then equals v, which is the state in which HLL_4's cur_min has shifted with no slot left at the minimum
          for (S& x : sk) x.reset(); model.clear(); batches.clear();
          const uint32_t k = 1u << lg_k, v = 1 + static_cast<uint32_t>(s.b % 3); std::vector<bool> filled(k, false); uint32_t left = k; std::vector<i64> chosen;
          for (i64 x = s.a * 1000003; left > 0; x++) { const uint32_t c = coupon_i64(x); const uint32_t slot = (c & 0x3ffffff) & (k - 1); if ((c >> 26) == v && !filled[slot]) { filled[slot] = true; left--; chosen.push_back(x); } }
          for (i64 x : chosen) { model.insert(coupon_i64(x)); for (S& sx : sk) sx.update(static_cast<int64_t>(x)); }
          ctx.probe("flat_fill"); ctx.nontrivial = true; break; }
        default: break;
      }
      // logical content of every variant against the independent coupon model
      for (size_t i = 0; i < sk.size(); i++) check_content(ctx, sk[i], model, "C03", "variant " + std::to_string(i) + " after " + step_name(s.kind));
      // cross checks: composite estimate agrees across types and orders; in-order estimate agrees across types
      const double comp0 = sk[0].get_composite_estimate();
      bool all_hll = true; for (S& x : sk) if (mode_of(x) != 2) all_hll = false;
      if (all_hll) {
        for (size_t i = 1; i < sk.size(); i++) ctx.require(close(sk[i].get_composite_estimate(), comp0, 1e-9), "C03|composite-estimate-differs-across-variants", "variant " + std::to_string(i) + " " + hexd(sk[i].get_composite_estimate()) + " vs " + hexd(comp0));
        ctx.probe("all_variants_in_hll_mode");
      }
      if (s.kind == H_BATCH || s.kind == H_UPD || s.kind == H_QUERY) {
        // HIP agrees across target types for the same presentation order and the same growth path
        if (mode_of(sk[0]) == mode_of(sk[1]) && mode_of(sk[1]) == mode_of(sk[2])) {
          ctx.require(close(sk[1].get_estimate(), sk[0].get_estimate(), 1e-9) && close(sk[2].get_estimate(), sk[0].get_estimate(), 1e-9), "C03|in-order-estimate-differs-across-types",
            hexd(sk[0].get_estimate()) + " " + hexd(sk[1].get_estimate()) + " " + hexd(sk[2].get_estimate()));
        }
        ctx.require(close(sk[3].get_estimate(), sk[4].get_estimate(), 1e-9), "C03|in-order-estimate-differs-across-types-full-size", hexd(sk[3].get_estimate()) + " " + hexd(sk[4].get_estimate()));
      }
      ctx.t(static_cast<u64>(model.size())); ctx.t(comp0);
    }
    // which rare conditions were reached
    { auto img = sk[0].serialize_updatable(); if ((img[7] & 3) == 2) { if (img[6] > 0) ctx.probe("hll4_curmin_shifted"); if (load32le(img.data() + 36) > 0) ctx.probe("hll4_aux_exceptions"); } }
    if (!alloc_state().errors.empty()) ctx.fail("C03|allocator-misuse", alloc_state().errors[0]);
  }
};

// ================================================================== C04
enum { U_BUILD = 1, U_SKETCH = 2, U_RAW = 3, U_READ = 4, U_RESET = 5, U_REDELIVER = 6, U_RAWBATCH = 7 };
struct C04World: World {
  const char* name() const override { return "c04"; }
  const char* step_name(int k) const override { static const char* n[] = { "?", "build", "union_sketch", "union_raw", "read", "reset", "redeliver", "union_raw_batch" }; return (k >= 1 && k <= 7) ? n[k] : "step"; }
  std::string family_of(const Plan&) const override { return "hll_union"; }
  Plan generate(u64 run_seed, int tier) override {
    Plan p; p.run_seed = run_seed; Rng rc(run_seed, "cfg"), rp(run_seed, "plan"), rf(run_seed, "fault");
    const int hi = tier ? 14 : 12;
    p.cfg = { rc.range(4, hi) };
    const bool faults = !rc.chance(1, 10);
    int nslots = static_cast<int>(rc.range(2, 6));
    auto gen_build = [&](int slot) { Step s; s.kind = U_BUILD; s.a = slot; int lg = static_cast<int>(rp.range(4, hi)); i64 k = static_cast<i64>(1) << lg;
      const i64 cnt[] = { 0, 1, 5, 8, 30, k / 4, k, 3 * k, 10 * k }; i64 c = std::min<i64>(rp.pick(cnt), tier ? 200000 : 30000);
      s.b = static_cast<i64>(rp.below(50000)); s.c = c * 256 + lg * 8 + static_cast<i64>(rp.below(3)) * 2 + static_cast<i64>(rp.below(2)); return s; };
    for (int i = 0; i < nslots; i++) p.steps.push_back(gen_build(i));
    int n = static_cast<int>(rp.range(2, tier ? 30 : 14));
    for (int i = 0; i < n; i++) {
      Step s; unsigned roll = static_cast<unsigned>(rp.below(100)); s.a = static_cast<i64>(rp.below(static_cast<u64>(nslots)));
      if (roll < 40) { s.kind = U_SKETCH; s.b = static_cast<i64>(rp.below(2)); }
      else if (roll < 52) { s.kind = U_RAW; s.a = static_cast<i64>(rp.below(100)); s.b = static_cast<i64>(rp.below(N_TYPES)); }
      else if (roll < 58) { s.kind = U_RAWBATCH; s.a = static_cast<i64>(rp.below(50000)); s.b = static_cast<i64>(rp.below(2000)); }
      else if (roll < 82) { s.kind = U_READ; s.b = static_cast<i64>(rp.below(3)); s.fault = 1; }
      else if (roll < 86) s.kind = U_RESET;
      else if (roll < 93) p.steps.push_back(gen_build(static_cast<int>(s.a))), s.kind = 0;
      else if (faults) { s.kind = U_REDELIVER; s.b = static_cast<i64>(rf.below(16)); s.c = static_cast<i64>(rf.below(2)); }
      if (s.kind) p.steps.push_back(s);
    }
    return p;
  }
  struct Slot { std::unique_ptr<S> sk; std::set<uint32_t> coupons; int mode = 0; int lg_k = 0; };
  void execute(const Plan& p, Ctx& ctx) override {
    alloc_state().reset_counters(); alloc_state().budget = static_cast<size_t>(1) << 31;
    const int lg_max = static_cast<int>(p.cfg[0]);
    UN un(static_cast<uint8_t>(lg_max), A(1));
    std::vector<Slot> slots(6);
    std::set<uint32_t> model; int expect_lg = lg_max; bool after_reset = false; bool first_input_downsampled = false; int hll_inputs = 0;
    std::vector<int> delivered;
    int idx = 0; bool last_was_merge = false;
    auto verify = [&](const char* after) {
      const int got_lg = un.get_lg_config_k();
      ctx.require(got_lg <= lg_max, "C04|lg_k-above-lg_max_k", std::to_string(got_lg));
      S r = un.get_result(ds::HLL_8);
      // a reset union is a new union: lg_k is judged against the inputs since the reset (the pinned tree kept a reduced lg_k across reset(); repaired, DESIGN 7 F-r7c)
      (void)after_reset; ctx.require(r.get_lg_config_k() == expect_lg && got_lg == expect_lg, "C04|result-lg_k", "result lg_k=" + std::to_string(r.get_lg_config_k()) + " union lg_k=" + std::to_string(got_lg) + " expected " + std::to_string(expect_lg) + std::string(" after ") + after);
      check_content(ctx, r, model, "C04", std::string("union result after ") + after, false);
      ctx.require(un.is_empty() == model.empty(), "C04|union-emptiness", "");
    };
    for (const Step& s : p.steps) {
      ctx.begin_step(idx++, s.kind);
      Slot& sl = slots[static_cast<size_t>(s.a) % slots.size()];
      switch (s.kind) {
        case U_BUILD: {
          const i64 count = s.c / 256; const int lg = static_cast<int>((s.c % 256) / 8); const int type = static_cast<int>(((s.c % 8) / 2) % 3); const bool full = (s.c & 1) != 0;
          if (lg < 4 || lg > 21) break;
          sl.sk.reset(new S(static_cast<uint8_t>(lg), static_cast<ds::target_hll_type>(type), full, A(1))); sl.coupons.clear(); sl.lg_k = lg;
          for (i64 j = 0; j < count; j++) { sl.sk->update(static_cast<int64_t>(s.b + j)); sl.coupons.insert(coupon_i64(s.b + j)); }
          sl.mode = mode_of(*sl.sk);
          ctx.probe(sl.mode == 0 ? "input_list_mode" : sl.mode == 1 ? "input_set_mode" : "input_hll_mode"); if (count == 0) ctx.probe("input_empty");
          last_was_merge = false; break;
        }
        case U_SKETCH: case U_REDELIVER: {
          Slot* src = &sl;
          if (s.kind == U_REDELIVER) { if (delivered.empty()) break; src = &slots[static_cast<size_t>(delivered[static_cast<size_t>(s.b) % delivered.size()])]; ctx.fault("dup"); }
          if (!src->sk) break;
          if (last_was_merge) ctx.probe("merge_directly_after_merge");
          // an HLL-mode input whose lg_k exceeds the union's current lg_k, arriving while the union holds nothing in HLL mode yet
          if (src->mode == 2 && src->lg_k > lg_max && hll_inputs == 0) { first_input_downsampled = true; ctx.probe("first_hll_input_downsampled"); }
          const bool rvalue = (s.kind == U_REDELIVER ? s.c : s.b) != 0;
          if (rvalue) { S tmp(*src->sk); un.update(std::move(tmp)); } else un.update(*src->sk);
          model.insert(src->coupons.begin(), src->coupons.end());
          // an empty input (HLL mode only via start_full_size) carries no items; it is not required to lower the precision
          if (src->mode == 2 && !src->coupons.empty()) { expect_lg = std::min(expect_lg, src->lg_k); hll_inputs++; }
          delivered.push_back(static_cast<int>(src - &slots[0]));
          verify(step_name(s.kind)); last_was_merge = true; ctx.nontrivial = true; break;
        }
        case U_RAW: { Canon c = typed_update(un, s.a, static_cast<int>(s.b) % N_TYPES); if (!c.ignored) model.insert(coupon_of(c)); verify("raw update"); last_was_merge = false; break; }
        case U_RAWBATCH: { for (i64 j = 0; j < s.b; j++) { un.update(static_cast<int64_t>(s.a + j)); model.insert(coupon_i64(s.a + j)); } verify("raw batch"); last_was_merge = false; break; }
        case U_READ: {
          if (last_was_merge) { ctx.probe("read_between_merges"); }
          ctx.fault("interleaved_read");
          double e = un.get_estimate(), c = un.get_composite_estimate(), lb = un.get_lower_bound(2), ub = un.get_upper_bound(2);
          if (!(lb <= e && e <= ub)) ctx.probe("union_bounds_cross_estimate");
          S r = un.get_result(static_cast<ds::target_hll_type>(s.b % 3));
          check_content(ctx, r, model, "C04", "get_result(type) in read step", false);
          if (mode_of(r) == 2) ctx.require(close(r.get_composite_estimate(), c, 1e-9), "C04|result-composite-differs-from-union", hexd(r.get_composite_estimate()) + " vs " + hexd(c));
          verify("read"); last_was_merge = false; break;
        }
        case U_RESET: { un.reset(); model.clear(); after_reset = true; expect_lg = lg_max; hll_inputs = 0; delivered.clear(); verify("reset"); last_was_merge = false; break; }
        default: break;
      }
      ctx.t(static_cast<u64>(model.size())); ctx.t(static_cast<u64>(un.get_lg_config_k()));
    }
    (void)first_input_downsampled;
    if (!alloc_state().errors.empty()) ctx.fail("C04|allocator-misuse", alloc_state().errors[0]);
  }
};

struct Init { Init() { static C03World a; static C04World b; registry().push_back(&a); registry().push_back(&b); } } init_;
} // namespace

int main(int argc, char** argv) { sim::selftest_hashes(); return sim::sim_main(argc, argv); }
