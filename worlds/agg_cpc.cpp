// world `agg`, CPC part (C05): coupon bit-matrix model, union = OR of row-folded matrices, lossless image at every stage.
#include "../sim/driver.hpp"
#include "../sim/canon.hpp"
#include <cpc_sketch.hpp>
#include <cpc_union.hpp>

using namespace sim;
namespace ds = datasketches;

namespace {
typedef talloc<uint8_t> A;
typedef ds::cpc_sketch_alloc<A> S;
typedef ds::cpc_union_alloc<A> UN;
static const u64 SEEDS[3] = { ds::DEFAULT_SEED, 12345, 0x9e3779b97f4a7c15ULL };

struct Pair { u64 h1; int col; };
Pair pair_of(const std::string& canon, u64 seed) { H128 h = murmur3_x64_128(canon.data(), canon.size(), seed); int c = clz64(h.h2); return Pair{h.h1, c > 63 ? 63 : c}; }
uint32_t fold(const Pair& p, int lg_k) { return (static_cast<uint32_t>(p.h1 & ((1ULL << lg_k) - 1)) << 6) | static_cast<uint32_t>(p.col); }
std::string canon_str(const Canon& c) { return std::string(reinterpret_cast<const char*>(c.data), c.len); }

enum { C_BATCH = 1, C_UPD = 2, C_SERDE = 3, C_PROBE = 4, C_UNION_NEW = 5, C_UNION_ADD = 6, C_UNION_GET = 7, C_REDELIVER = 8, C_PAIR = 9, C_COPY = 10, C_NEW = 11, C_CLUSTER = 12 };

struct Slot { std::unique_ptr<S> sk; int lg_k = 0; std::set<std::string> items; };

struct C05World: World {
  const char* name() const override { return "c05"; }
  const char* step_name(int k) const override { static const char* n[] = { "?", "batch", "update", "serde", "reoffer_probe", "union_new", "union_add", "union_get_result", "union_redeliver", "equal_count_pair", "copy", "new_sketch", "clustered_rows" }; return (k >= 1 && k <= 12) ? n[k] : "step"; }
  std::string family_of(const Plan&) const override { return "cpc"; }
  Plan generate(u64 run_seed, int tier) override {
    Plan p; p.run_seed = run_seed; Rng rc(run_seed, "cfg"), rp(run_seed, "plan"), rf(run_seed, "fault");
    const int hi = tier ? 12 : 10;
    p.cfg = { static_cast<i64>(rc.below(3)), rc.range(4, hi) };   // seed, union lg_k
    const bool faults = !rc.chance(1, 10);
    int nslots = static_cast<int>(rc.range(1, 4));
    for (int i = 0; i < nslots; i++) { Step s; s.kind = C_NEW; s.a = i; s.b = rp.range(4, hi); p.steps.push_back(s); }
    int n = static_cast<int>(rp.range(3, tier ? 36 : 16));
    for (int i = 0; i < n; i++) {
      Step s; unsigned roll = static_cast<unsigned>(rp.below(100)); s.a = static_cast<i64>(rp.below(static_cast<u64>(nslots)));
      if (roll < 34) { s.kind = C_BATCH; s.b = static_cast<i64>(rp.below(100000)); s.c = static_cast<i64>(rp.below(64)); }   // count is chosen relative to k at execution time (c indexes a table)
      else if (roll < 42) { s.kind = C_UPD; s.b = static_cast<i64>(rp.below(100)); s.c = static_cast<i64>(rp.below(N_TYPES)); }
      else if (roll < 55) { s.kind = C_SERDE; s.b = static_cast<i64>(rp.below(2)); }
      else if (roll < 63) s.kind = C_PROBE;
      else if (roll < 67) { s.kind = C_UNION_NEW; s.b = rp.range(4, hi); }
      else if (roll < 82) { s.kind = C_UNION_ADD; s.b = static_cast<i64>(rp.below(2)); }
      else if (roll < 90) s.kind = C_UNION_GET;
      else if (roll < 93) { s.kind = faults ? C_REDELIVER : C_UNION_GET; s.b = static_cast<i64>(rf.below(8)); }
      else if (roll < 96) { s.kind = C_PAIR; s.b = rp.range(4, 9); s.c = static_cast<i64>(rp.below(40)); }
      else if (roll < 97) { s.kind = C_COPY; s.b = static_cast<i64>(rp.below(static_cast<u64>(nslots))); }
      else if (roll < 99) { s.kind = C_CLUSTER; s.b = static_cast<i64>(rp.below(100000)); s.c = static_cast<i64>(rp.below(64)); }
      else { s.kind = C_NEW; s.b = rp.range(4, hi); }
      p.steps.push_back(s);
    }
    return p;
  }

  static void flavor_probe(Ctx& ctx, int lg_k, u64 c) {
    const u64 k = 1ULL << lg_k;
    if (c == 0) ctx.probe("flavor_empty"); else if (32 * c < 3 * k) ctx.probe("flavor_sparse"); else if (2 * c < k) ctx.probe("flavor_hybrid"); else if (8 * c < 27 * k) ctx.probe("flavor_pinned"); else ctx.probe("flavor_sliding");
  }

  // (a) coupon count = distinct model pairs; (b) re-offering everything seen to a copy adds nothing; (c) validate()
  void check_sketch(Ctx& ctx, const S& s, int lg_k, const std::set<std::string>& items, u64 seed, bool probe, const std::string& who) {
    std::set<uint32_t> pairs; for (const std::string& it : items) pairs.insert(fold(pair_of(it, seed), lg_k));
    ctx.require(s.get_lg_k() == lg_k, "C05|lg_k", who + " lg_k=" + std::to_string(s.get_lg_k()) + " expected " + std::to_string(lg_k));
    ctx.require(s.get_num_coupons() == pairs.size(), s.get_num_coupons() < pairs.size() ? "C05|coupon-count-too-small" : "C05|coupon-count-too-large", who + " C=" + std::to_string(s.get_num_coupons()) + " model " + std::to_string(pairs.size()) + " lg_k=" + std::to_string(lg_k));
    ctx.require(s.is_empty() == items.empty(), "C05|emptiness", who);
    ctx.require(s.validate(), "C05|validate-false", who);
    for (unsigned kappa = 1; kappa <= 3; kappa++) { double lb = s.get_lower_bound(kappa), e = s.get_estimate(), ub = s.get_upper_bound(kappa); if (!(lb <= e && e <= ub)) ctx.probe("bounds_cross_estimate"); }
    if (probe) {
      S copy(s);
      for (const std::string& it : items) copy.update(static_cast<const void*>(it.data()), it.size());
      ctx.require(copy.get_num_coupons() == s.get_num_coupons(), "C05|coupon-missing-from-matrix", who + ": re-offering the " + std::to_string(items.size()) + " items seen raised C from " + std::to_string(s.get_num_coupons()) + " to " + std::to_string(copy.get_num_coupons()));
      ctx.require(copy.validate(), "C05|validate-false-after-reoffer", who);
      ctx.probe("reoffer_probe");
    }
    flavor_probe(ctx, lg_k, pairs.size());
  }

  void execute(const Plan& p, Ctx& ctx) override {
    alloc_state().reset_counters(); alloc_state().budget = static_cast<size_t>(1) << 31;
    const u64 seed = SEEDS[p.cfg[0] % 3]; int lg_u = static_cast<int>(p.cfg[1]);
    std::vector<Slot> slots(4);
    std::unique_ptr<UN> un(new UN(static_cast<uint8_t>(lg_u), seed, A(1)));
    std::set<std::string> u_items; int u_expect = lg_u; std::vector<int> delivered;
    int idx = 0;
    auto check_union = [&](bool probe, const char* after) {
      S r = un->get_result();
      check_sketch(ctx, r, u_expect, u_items, seed, probe, std::string("union result after ") + after);
    };
    for (const Step& s : p.steps) {
      ctx.begin_step(idx++, s.kind);
      Slot& sl = slots[static_cast<size_t>(s.a) % slots.size()];
      if (s.kind != C_NEW && s.kind != C_UNION_NEW && s.kind != C_UNION_GET && s.kind != C_PAIR && s.kind != C_REDELIVER && !sl.sk) continue;
      switch (s.kind) {
        case C_NEW: { int lg = static_cast<int>(std::min<i64>(std::max<i64>(s.b, 4), 16)); sl.sk.reset(new S(static_cast<uint8_t>(lg), seed, A(1))); sl.lg_k = lg; sl.items.clear(); break; }
        case C_BATCH: {
          const i64 k = static_cast<i64>(1) << sl.lg_k;
          const i64 table[] = { 1, 2, 3, k / 32, 3 * k / 32 - 1, 3 * k / 32 + 1, k / 8, k / 2 - 2, k / 2 + 2, k, 2 * k, 27 * k / 8 - 3, 27 * k / 8 + 3, 5 * k, 8 * k, 12 * k };
          i64 count = std::max<i64>(1, table[static_cast<size_t>(s.c) % 16]); if (count > 60000) count = 60000;
          for (i64 j = 0; j < count; j++) { i64 v = s.b + j; sl.sk->update(static_cast<int64_t>(v)); sl.items.insert(canon_str(canon_i64(v))); }
          check_sketch(ctx, *sl.sk, sl.lg_k, sl.items, seed, false, "sketch after batch");
          break;
        }
        case C_UPD: { Canon c = typed_update(*sl.sk, s.b, static_cast<int>(s.c) % N_TYPES); if (!c.ignored) sl.items.insert(canon_str(c)); check_sketch(ctx, *sl.sk, sl.lg_k, sl.items, seed, false, "sketch after typed update"); break; }
        case C_SERDE: {
          const double e0 = sl.sk->get_estimate(), lb0 = sl.sk->get_lower_bound(2), ub0 = sl.sk->get_upper_bound(2);
          auto bytes = sl.sk->serialize();
          std::unique_ptr<S> back;
          if (s.b) { std::string str(bytes.begin(), bytes.end()); std::istringstream is(str); back.reset(new S(S::deserialize(is, seed, A(1)))); }
          else back.reset(new S(S::deserialize(bytes.data(), bytes.size(), seed, A(1))));
          ctx.require(back->get_estimate() == e0 && back->get_lower_bound(2) == lb0 && back->get_upper_bound(2) == ub0, "C05|estimator-state-not-restored", hexd(e0) + " vs " + hexd(back->get_estimate()));
          auto again = back->serialize();
          ctx.require(again.size() == bytes.size() && std::equal(again.begin(), again.end(), bytes.begin()), "C05|reserialized-image-differs", std::to_string(bytes.size()) + " vs " + std::to_string(again.size()));
          sl.sk = std::move(back);   // the restored sketch continues in place of the original
          check_sketch(ctx, *sl.sk, sl.lg_k, sl.items, seed, true, "restored sketch");
          ctx.fault("checkpoint_restore"); break;
        }
        case C_CLUSTER: {   // adversarial stream: every input falls into a narrow band of rows (found by searching the independent hash), so that the sorted
          // pairs of the image have one long run of empty rows before and after the band; then a checkpoint/restore
          const u64 k = 1ULL << sl.lg_k; const u64 band = std::max<u64>(1, k / 64), r0 = (static_cast<u64>(s.b) * 7919) % (k - band + 1); static const i64 cnts[] = { 18, 24, 40, 80 }; const i64 cnt = cnts[static_cast<size_t>(s.c) % 4];
          i64 fed = 0; for (i64 x = s.b * 1000003; fed < cnt && x < s.b * 1000003 + 400000; x++) { const Pair pr = pair_of(canon_str(canon_i64(x)), seed); const u64 row = pr.h1 & (k - 1); if (row >= r0 && row < r0 + band) { sl.sk->update(static_cast<int64_t>(x)); sl.items.insert(canon_str(canon_i64(x))); fed++; } }
          check_sketch(ctx, *sl.sk, sl.lg_k, sl.items, seed, false, "sketch after clustered batch");
          auto bytes = sl.sk->serialize(); S back = S::deserialize(bytes.data(), bytes.size(), seed, A(1)); auto again = back.serialize();
          ctx.require(again.size() == bytes.size() && std::equal(again.begin(), again.end(), bytes.begin()), "C05|reserialized-image-differs", "clustered rows");
          check_sketch(ctx, back, sl.lg_k, sl.items, seed, true, "restored sketch after clustered batch");
          ctx.probe("clustered_rows"); ctx.nontrivial = true; break; }
        case C_PROBE: check_sketch(ctx, *sl.sk, sl.lg_k, sl.items, seed, true, "sketch"); ctx.nontrivial = true; break;
        case C_COPY: { Slot& d = slots[static_cast<size_t>(s.b) % slots.size()]; if (&d != &sl) { d.sk.reset(new S(*sl.sk)); d.lg_k = sl.lg_k; d.items = sl.items; } else { *sl.sk = *sl.sk; } check_sketch(ctx, *d.sk, d.lg_k, d.items, seed, false, "copy"); break; }
        case C_UNION_NEW: { lg_u = static_cast<int>(std::min<i64>(std::max<i64>(s.b, 4), 16)); un.reset(new UN(static_cast<uint8_t>(lg_u), seed, A(1))); u_items.clear(); u_expect = lg_u; delivered.clear(); check_union(false, "construction"); break; }
        case C_UNION_ADD: case C_REDELIVER: {
          Slot* src = &sl;
          if (s.kind == C_REDELIVER) { if (delivered.empty()) break; src = &slots[static_cast<size_t>(delivered[static_cast<size_t>(s.b) % delivered.size()])]; if (!src->sk) break; ctx.fault("dup"); }
          if (s.kind == C_UNION_ADD && s.b) { S tmp(*src->sk); un->update(std::move(tmp)); } else un->update(*src->sk);
          u_items.insert(src->items.begin(), src->items.end());
          if (!src->items.empty()) { if (src->lg_k < u_expect) ctx.probe("union_reduced_k"); u_expect = std::min(u_expect, src->lg_k); }
          delivered.push_back(static_cast<int>(src - &slots[0]));
          check_union(delivered.size() % 3 == 0, step_name(s.kind)); ctx.nontrivial = true; break;
        }
        case C_UNION_GET: check_union(true, "interleaved get_result"); ctx.fault("interleaved_read"); break;
        case C_PAIR: {
          // (d) two sketches with equal (lg_k, C) but different content give bit-identical merged-form estimates
          const int lg = static_cast<int>(std::min<i64>(std::max<i64>(s.b, 4), 10)); const i64 k = static_cast<i64>(1) << lg; const i64 n = 1 + (s.c * k) / 8;
          S a(static_cast<uint8_t>(lg), seed, A(1)), b(static_cast<uint8_t>(lg), seed, A(1));
          for (i64 j = 0; j < n; j++) a.update(static_cast<int64_t>(j));
          i64 j = 0; while (b.get_num_coupons() < a.get_num_coupons() && j < 100 * n + 1000) { b.update(static_cast<int64_t>(1000000 + j)); j++; }
          if (b.get_num_coupons() != a.get_num_coupons()) { ctx.probe("pair_not_matched"); break; }
          UN ua(static_cast<uint8_t>(lg), seed, A(1)), ub(static_cast<uint8_t>(lg), seed, A(1)); ua.update(a); ub.update(b);
          S ra = ua.get_result(), rb = ub.get_result();
          ctx.require(ra.get_num_coupons() == rb.get_num_coupons() && ra.get_estimate() == rb.get_estimate() && ra.get_lower_bound(1) == rb.get_lower_bound(1) && ra.get_upper_bound(3) == rb.get_upper_bound(3),
            "C05|merged-estimate-not-function-of-lgk-and-count", "lg_k=" + std::to_string(lg) + " C=" + std::to_string(ra.get_num_coupons()) + " " + hexd(ra.get_estimate()) + " vs " + hexd(rb.get_estimate()));
          ctx.probe("equal_count_pair"); break;
        }
        default: break;
      }
      ctx.t(static_cast<u64>(sl.sk ? sl.sk->get_num_coupons() : 0)); ctx.t(static_cast<u64>(u_items.size()));
    }
    if (!alloc_state().errors.empty()) ctx.fail("C05|allocator-misuse", alloc_state().errors[0]);
  }
};

struct Init { Init() { static C05World a; registry().push_back(&a); } } init_;
} // namespace

int main(int argc, char** argv) { sim::selftest_hashes(); return sim::sim_main(argc, argv); }
