// world `heap` (C19): object lifecycle over a pool of live objects of one family, with a tracking allocator and instrumented items.
#include "../sim/driver.hpp"
#include "../sim/seams.hpp"
#if defined(GROUP_OPS)
#include "../sim/fam_ops.hpp"
static void register_families() { fam::register_ops(); }
#define GROUP_NAME "o"
#elif defined(GROUP_DISTINCT)
#include "../sim/fam_distinct.hpp"
static void register_families() { fam::register_distinct(); }
#define GROUP_NAME "d"
#elif defined(GROUP_QUANT)
#include "../sim/fam_quant.hpp"
static void register_families() { fam::register_quant(); }
#define GROUP_NAME "q"
#else
#include "../sim/fam_misc.hpp"
static void register_families() { fam::register_misc(); fam::register_misc_heap_extra(); }
#define GROUP_NAME "m"
#endif

using namespace sim;
using fam::Sk; using fam::Family;

namespace {
enum { L_NEW = 1, L_FEED, L_COPY, L_MOVE, L_ASSIGN, L_MOVE_ASSIGN, L_SELF_ASSIGN, L_SELF_MOVE_ASSIGN, L_CHAIN, L_MERGE, L_MERGE_MOVE, L_QUERY, L_SERDE, L_RESET, L_DESTROY, L_COPY_CONTINUE, L_N };
const char* lnames[] = { "?", "construct", "update", "copy_construct", "move_construct", "copy_assign", "move_assign", "self_assign", "self_move_assign", "assign_chain", "merge", "merge_move", "query", "serialize_deserialize", "reset", "destroy", "copy_then_continue_both" };
Family* family_at(i64 idx) { auto& f = fam::families(); return f[static_cast<size_t>(idx) % f.size()]; }

struct Obj { std::unique_ptr<Sk> sk; std::string expect; bool moved_from = false; };

struct C19World: World {
  const char* name() const override { return "c19" GROUP_NAME; }
  const char* step_name(int k) const override { return (k >= 1 && k < L_N) ? lnames[k] : "step"; }
  std::string family_of(const Plan& p) const override { return p.cfg.empty() ? "?" : family_at(p.cfg[0])->name(); }
  Plan generate(u64 run_seed, int tier) override {
    Plan p; p.run_seed = run_seed; Rng rc(run_seed, "cfg"), rp(run_seed, "plan");
    i64 fi = static_cast<i64>(rc.below(fam::families().size())); Family* f = family_at(fi);
    p.cfg.push_back(fi); f->gen_cfg(rc, p.cfg, tier);
    for (int i = 0; i < 4; i++) { Step s; s.kind = L_NEW; s.a = i; p.steps.push_back(s); if (i < 3) { Step g; g.kind = L_FEED; g.a = i; g.b = static_cast<i64>(rp.below(2000)); static const i64 c0[] = { 1, 9, 70, 400 }; g.c = rp.pick(c0) * 64 + static_cast<i64>(rp.below(64)); p.steps.push_back(g); } }
    int n = static_cast<int>(rp.range(4, tier ? 50 : 24));
    for (int i = 0; i < n; i++) {
      Step s; unsigned roll = static_cast<unsigned>(rp.below(100)); s.a = static_cast<i64>(rp.below(6)); s.b = static_cast<i64>(rp.below(6));
      if (roll < 10) s.kind = L_NEW; else if (roll < 32) { s.kind = L_FEED; s.b = static_cast<i64>(rp.below(2000)); static const i64 cnt[] = { 0, 1, 2, 5, 9, 33, 70, 150, 400, 1200 }; s.c = std::min<i64>(rp.pick(cnt), tier ? 1200 : 400) * 64 + static_cast<i64>(rp.below(64)); }
      else if (roll < 40) s.kind = L_COPY; else if (roll < 47) s.kind = L_MOVE; else if (roll < 54) s.kind = L_ASSIGN; else if (roll < 60) s.kind = L_MOVE_ASSIGN;
      else if (roll < 63) s.kind = L_SELF_ASSIGN; else if (roll < 65) s.kind = L_SELF_MOVE_ASSIGN; else if (roll < 68) { s.kind = L_CHAIN; s.c = static_cast<i64>(rp.below(8)); }
      else if (roll < 76) s.kind = L_MERGE; else if (roll < 81) s.kind = L_MERGE_MOVE; else if (roll < 87) s.kind = L_QUERY; else if (roll < 92) { s.kind = L_SERDE; s.c = static_cast<i64>(rp.below(16)); }
      else if (roll < 94) s.kind = L_RESET; else if (roll < 97) { s.kind = L_COPY_CONTINUE; s.c = (static_cast<i64>(rp.below(4)) * 30 + 3) * 64 + static_cast<i64>(rp.below(64)); } else s.kind = L_DESTROY;
      p.steps.push_back(s);
    }
    return p;
  }
  std::string fp(const Plan& p, const char* cls) const { return "C19|" + family_of(p) + "|" + cls; }

  void execute(const Plan& p, Ctx& ctx) override {
    AllocState& as = alloc_state(); as.reset_counters(); as.budget = static_cast<size_t>(1) << 30; item_state().errors.clear();
    Family* f = family_at(p.cfg[0]); const i64* fcfg = p.cfg.data() + 1;
    if (static_cast<int>(p.cfg.size()) < 1 + f->cfg_len()) return;
    SimRandom rnd(p.run_seed); RandomScope rs(rnd);
    const AllocMark baseline; const size_t items_baseline = item_state().live.size();
    const long long tracked_baseline = g_tracked_global_live;
    {
      std::vector<Obj> pool(8);
      int idx = 0;
      auto seams = [&](const char* after) {
        if (!as.errors.empty()) ctx.fail(fp(p, as.errors[0].rfind("deallocate through an allocator of another arena", 0) == 0 ? "released-through-unequal-allocator-instance" : "allocator-misuse"), as.errors[0] + std::string(" after ") + after);
        if (!item_state().errors.empty()) ctx.fail(fp(p, "item-lifecycle"), item_state().errors[0] + std::string(" after ") + after);
        if (as.arena0_allocs) ctx.fail(fp(p, "allocation-through-default-constructed-allocator"), std::to_string(as.arena0_allocs) + " allocation(s) after " + after);
        if (as.default_constructed) { ctx.probe("allocator_default_constructed_without_allocating", as.default_constructed); as.default_constructed = 0; }
      };
      for (const Step& s : p.steps) {
        ctx.begin_step(idx++, s.kind);
        Obj& a = pool[static_cast<size_t>(s.a) % pool.size()]; Obj& b = pool[static_cast<size_t>(s.b) % pool.size()];
        const bool a_ok = a.sk && !a.moved_from, b_ok = b.sk && !b.moved_from;
        // blocks taken from ::operator new inside lifecycle calls are tracked; the observation strings the harness keeps are taken outside the scope
        #define TRACKED(stmt) do { TrackGlobalNew tg_; stmt; } while (0)
        switch (s.kind) {
          case L_NEW: fam::ARENA = (p.run_seed % 4 == 0) ? 1 + static_cast<int>(static_cast<size_t>(s.a) % pool.size() % 2) : 1;   // odd pool slots get an allocator instance that compares unequal to the even slots' one
            TRACKED(a.sk.reset(f->make(fcfg))); fam::ARENA = 1; a.moved_from = false; a.expect = a.sk->obs(false); if (p.run_seed % 4 == 0) ctx.probe("object_in_second_arena", static_cast<u64>(static_cast<size_t>(s.a) % pool.size() % 2)); break;
          case L_FEED: if (a_ok) { TRACKED(a.sk->feed(s.b, s.c / 64, s.c % 64)); a.expect = a.sk->obs(false); } break;
          case L_COPY: if (b_ok && &a != &b) { TRACKED(a.sk.reset(b.sk->clone())); a.moved_from = false; a.expect = a.sk->obs(false);
              ctx.require(a.expect == b.expect, fp(p, "copy-differs-from-source").c_str(), a.expect.substr(0, 200) + " vs " + b.expect.substr(0, 200)); ctx.nontrivial = true; } break;
          case L_MOVE: if (b_ok && &a != &b) { const std::string before = b.expect; TRACKED(a.sk.reset(b.sk->move_out())); a.moved_from = false; b.moved_from = true; a.expect = a.sk->obs(false);
              ctx.require(a.expect == before, fp(p, "move-did-not-transfer-state").c_str(), a.expect.substr(0, 200) + " vs " + before.substr(0, 200)); ctx.nontrivial = true; } break;
          case L_ASSIGN: if (a.sk && b_ok && &a != &b) { TRACKED(a.sk->copy_assign(*b.sk)); a.moved_from = false; a.expect = a.sk->obs(false);
              ctx.require(a.expect == b.expect, fp(p, "copy-assignment-differs-from-source").c_str(), a.expect.substr(0, 200) + " vs " + b.expect.substr(0, 200)); ctx.nontrivial = true; } break;
          case L_MOVE_ASSIGN: if (a.sk && b_ok && &a != &b) { const std::string before = b.expect; TRACKED(a.sk->move_assign(*b.sk)); a.moved_from = false; b.moved_from = true; a.expect = a.sk->obs(false);
              ctx.require(a.expect == before, fp(p, "move-assignment-did-not-transfer-state").c_str(), a.expect.substr(0, 200) + " vs " + before.substr(0, 200)); ctx.nontrivial = true; } break;
          case L_SELF_ASSIGN: if (a_ok) { TRACKED(a.sk->copy_assign(*a.sk)); const std::string now = a.sk->obs(false); ctx.require(now == a.expect, fp(p, "self-assignment-changed-object").c_str(), now.substr(0, 200) + " vs " + a.expect.substr(0, 200)); ctx.probe("self_assign"); ctx.nontrivial = true; } break;
          case L_SELF_MOVE_ASSIGN: if (a_ok) { TRACKED(a.sk->move_assign(*a.sk)); a.moved_from = true; ctx.probe("self_move_assign"); ctx.nontrivial = true; } break;   // valid-but-unspecified afterwards: only assignment and destruction follow
          case L_CHAIN: { Obj& c = pool[static_cast<size_t>(s.c) % pool.size()]; if (a.sk && b.sk && c.sk && !c.moved_from && &a != &b && &b != &c && &a != &c) { TRACKED(b.sk->copy_assign(*c.sk)); TRACKED(a.sk->copy_assign(*b.sk)); a.moved_from = b.moved_from = false; a.expect = a.sk->obs(false); b.expect = b.sk->obs(false);
              ctx.require(a.expect == c.expect && b.expect == c.expect, fp(p, "assignment-chain-differs").c_str(), ""); ctx.nontrivial = true; } break; }
          case L_MERGE: if (a_ok && b_ok && &a != &b) { TRACKED(a.sk->merge(*b.sk)); a.expect = a.sk->obs(false); ctx.nontrivial = true; } break;
          case L_MERGE_MOVE: if (a_ok && b_ok && &a != &b) { TRACKED(a.sk->merge_move(*b.sk)); b.moved_from = true; a.expect = a.sk->obs(false); ctx.nontrivial = true; } break;
          case L_QUERY: if (a_ok) { const std::string now = a.sk->obs(false); ctx.require(now == a.expect, fp(p, "query-changed-observation").c_str(), now.substr(0, 200) + " vs " + a.expect.substr(0, 200)); } break;
          case L_SERDE: if (b_ok && &a != &b) { int v = static_cast<int>(s.c) % f->n_variants();
              if (std::string(f->name()) == "theta" && v >= 3) v -= 3;   // wrap() takes no allocator: a wrapped theta sketch is not an allocator-aware object
              if (!b.sk->variant_ok(v)) break; fam::Bytes img = b.sk->ser(v, 0); b.expect = b.sk->obs(false);
              TRACKED(a.sk.reset(b.sk->de(v, img.data(), img.size()))); a.moved_from = false; a.expect = a.sk->obs(false); ctx.nontrivial = true; } break;
          case L_COPY_CONTINUE: if (b_ok && &a != &b) {   // a copy is the same object from now on as well: source and copy, fed the same batch under the same draws, stay equal
              TRACKED(a.sk.reset(b.sk->clone())); a.moved_from = false;
              rnd.rng.seed(mix(p.run_seed, static_cast<u64>(idx) * 16 + 1)); TRACKED(b.sk->feed(s.a * 31 + 5, s.c / 64, s.c % 64)); b.expect = b.sk->obs(false);
              rnd.rng.seed(mix(p.run_seed, static_cast<u64>(idx) * 16 + 1)); TRACKED(a.sk->feed(s.a * 31 + 5, s.c / 64, s.c % 64)); a.expect = a.sk->obs(false);
              ctx.require(a.expect == b.expect, fp(p, "copy-diverges-from-source-under-identical-input").c_str(), a.expect.substr(0, 200) + " vs " + b.expect.substr(0, 200)); ctx.probe("copy_then_continue"); ctx.nontrivial = true; } break;
          case L_RESET: if (a_ok) { TRACKED(a.sk->reset()); a.expect = a.sk->obs(false); } break;
          case L_DESTROY: TRACKED(a.sk.reset()); a.moved_from = false; break;
          default: break;
        }
        seams(lnames[s.kind]);
        // independence: no object other than the ones this step names may have changed
        for (Obj& o : pool) { if (!o.sk || o.moved_from || &o == &a || &o == &b) continue; if (s.kind == L_CHAIN && &o == &pool[static_cast<size_t>(s.c) % pool.size()]) continue;
          const std::string now = o.sk->obs(false);
          if (now != o.expect) ctx.fail(fp(p, "object-changed-by-operation-on-another"), std::string("after ") + lnames[s.kind] + ": " + now.substr(0, 200) + " vs " + o.expect.substr(0, 200)); ctx.check(); }
        // the source of a copy / merge / serialize must be unchanged as well
        if ((s.kind == L_COPY || s.kind == L_ASSIGN || s.kind == L_MERGE || s.kind == L_SERDE) && b.sk && !b.moved_from && &a != &b) {
          const std::string now = b.sk->obs(false); if (now != b.expect) ctx.fail(fp(p, "source-changed-by-copy-or-merge"), std::string(lnames[s.kind]) + ": " + now.substr(0, 200) + " vs " + b.expect.substr(0, 200)); }
        ctx.t(static_cast<u64>(as.live.size())); ctx.t(a.sk && !a.moved_from ? a.expect : std::string("-"));
      }
      // destroy in plan-dependent order
      for (size_t i = 0; i < pool.size(); i++) { pool[(i * 3 + static_cast<size_t>(p.cfg[0])) % pool.size()].sk.reset(); seams("final destruction"); }
    }
    if (!baseline.balanced()) ctx.fail(fp(p, "memory-left-allocated-after-last-object-died"), baseline.diff());
    if (item_state().live.size() != items_baseline) ctx.fail(fp(p, "items-left-alive-after-last-object-died"), std::to_string(item_state().live.size() - items_baseline) + " item(s)");
    // nothing persists through a path that bypasses the allocator either (string buffers, hash-seed vectors, std::function state)
    if (g_tracked_global_live != tracked_baseline) ctx.fail(fp(p, "global-new-blocks-left-after-last-object-died"), std::to_string(g_tracked_global_live - tracked_baseline) + " block(s) obtained through ::operator new inside lifecycle calls");
    ctx.probe("pool_emptied_and_balanced");
  }
};

struct Init { Init() { register_families(); static C19World w; registry().push_back(&w); } } init_;
} // namespace

int main(int argc, char** argv) { sim::selftest_hashes(); return sim::sim_main(argc, argv); }
