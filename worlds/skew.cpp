// world `store` with fault kind version_skew (C10): the same seeded plans are executed by the frozen baseline build and by the
// current build; each side dumps its records (image + observation) and the other side must read them to the same observation.
// Compiled twice per family group: against /repo (current) and against /verif/baseline (-DDSIM_BASELINE).
#include "../sim/driver.hpp"
#include "../sim/seams.hpp"
#if defined(GROUP_DISTINCT)
#include "../sim/fam_distinct.hpp"
static void register_families() { fam::register_distinct(); }
#define GROUP_NAME "d"
#elif defined(GROUP_QUANT)
#include "../sim/fam_quant.hpp"
static void register_families() { fam::register_quant(); static fam::QuantFamily<double> qd; static fam::KllFamily<double> kd; fam::families().push_back(&qd); fam::families().push_back(&kd); }
#define GROUP_NAME "q"
#else
#include "../sim/fam_misc.hpp"
static void register_families() { fam::register_misc(); }
#define GROUP_NAME "m"
#endif
#include <fstream>

using namespace sim;
using fam::Sk; using fam::Family; using fam::Bytes;

namespace {
enum { OP_FEED = 1, OP_MERGE = 2, OP_RESET = 3, OP_CHECKPOINT = 4, OP_MERGE_MOVE = 7 };
Family* family_at(i64 idx) { auto& f = fam::families(); return f[static_cast<size_t>(idx) % f.size()]; }

struct Record { int variant; Bytes img; std::string obs; std::string mem; };   // mem: what the public API of the in-memory object said when the image was written (not dumped)
// peer records by run seed (loaded from DSIM_PEER_FILE)
std::map<u64, std::vector<Record>>& peer() { static std::map<u64, std::vector<Record>> p; return p; }
struct RefImage { std::string file, family; Bytes img; std::string obs; };
std::vector<RefImage>& peer_refs() { static std::vector<RefImage> r; return r; }

std::string hex(const Bytes& b) { static const char* d = "0123456789abcdef"; std::string s; s.reserve(b.size() * 2); for (uint8_t x : b) { s += d[x >> 4]; s += d[x & 15]; } return s; }
Bytes unhex(const std::string& s) { Bytes b; b.reserve(s.size() / 2); auto v = [](char c) { return c <= '9' ? c - '0' : c - 'a' + 10; }; for (size_t i = 0; i + 1 < s.size(); i += 2) b.push_back(static_cast<uint8_t>(v(s[i]) * 16 + v(s[i + 1]))); return b; }

// the part of an observation that must be the same whichever version reads the image: getters whose computation has been repaired
// since the baseline (t-digest quantile interpolation) and sampling output of an internally inconsistent baseline state (ebpps) are left out
std::string stable(const std::string& obs, const std::string& family) {
  const bool td = family.rfind("tdigest", 0) == 0, eb = family.rfind("ebpps", 0) == 0, kl = family.rfind("kll", 0) == 0, vu = family.rfind("varopt_union", 0) == 0;
  if (!td && !eb && !kl && !vu) return obs;
  std::istringstream is(obs); std::string tok, out;
  while (is >> tok) {
    if (td && tok.rfind("q=", 0) == 0) continue; if (eb && tok.rfind("result=", 0) == 0) continue;
    if (vu && tok.rfind("items=[", 0) == 0) continue;                     // which items a union's get_result() keeps depends on the order it visits slots in (changed by a repair); k, n, sample count and sums stay
    if (kl && tok.rfind("wsum=", 0) == 0) continue;                       // the baseline's iterator reports weight 1 when level 0 is empty (repaired)
    if (kl && tok.rfind("items=[", 0) == 0) { std::string t2; bool skip = false; for (char c : tok) { if (c == '*') skip = true; else if (c == ',') skip = false; if (!skip) t2 += c; } tok = t2; }
    out += tok + " ";
  }
  return out;
}
std::set<u64>& peer_failed() { static std::set<u64> s; return s; }

void load_peer(const char* path) {
  std::ifstream f(path); std::string line;
  while (std::getline(f, line)) {
    if (line.size() < 2) continue;
    std::istringstream ls(line); std::string tag; ls >> tag;
    if (tag == "R") { const size_t ck = line.rfind("\t$"); if (ck == std::string::npos || std::to_string(fnv1a(line.data(), ck)) != line.substr(ck + 2)) continue;   // cut or glued line
      line.resize(ck); ls.str(line); ls.clear(); ls >> tag;
      u64 seed; int idx, variant; std::string h; ls >> seed >> idx >> variant >> h; std::string obs; std::getline(ls, obs); if (!obs.empty() && obs[0] == '\t') obs = obs.substr(1); Record r; r.variant = variant; r.img = unhex(h == "-" ? "" : h); r.obs = obs; auto& v = peer()[seed]; if (static_cast<int>(v.size()) == idx) v.push_back(r); }
    else if (tag == "X") { u64 seed; ls >> seed; peer_failed().insert(seed); }
    else if (tag == "F") { RefImage r; std::string h; ls >> r.file >> r.family >> h; std::getline(ls, r.obs); if (!r.obs.empty() && r.obs[0] == '\t') r.obs = r.obs.substr(1); r.img = unhex(h); peer_refs().push_back(r); }
  }
}

void apply_history_step(Family* f, const i64* fcfg, Sk& sk, const Step& s) {
  switch (s.kind) {
    case OP_FEED: sk.feed(s.a, s.b, s.c); break;
    case OP_MERGE: case OP_MERGE_MOVE: { std::unique_ptr<Sk> other(f->make(fcfg)); other->feed(s.a + 500, s.b, s.c); if (s.kind == OP_MERGE) sk.merge(*other); else sk.merge_move(*other); break; }
    case OP_RESET: sk.reset(); break;
    default: break;
  }
}

// documented family ids / serial versions (byte 1 = serial version, byte 2 = family id in every layout comment; HLL: byte 1 = 1, byte 2 = 7)
struct Ids { const char* prefix; int serial; int family; };
static const Ids IDS[] = { {"theta", -3, 3}, {"tuple", 3, 9}, {"aod", 1, 9}, {"hll", 1, 7}, {"cpc", 1, 16}, {"kll", -2, 15}, {"req", 1, 17}, {"quantiles", 3, 8}, {"tdigest", 1, 20}, {"fi", 1, 10}, {"countmin", 1, 18},
  {"varopt_union", 2, 14}, {"varopt", 2, 13}, {"ebpps", 1, 19}, {"bloom", 1, 21}, {"density", 1, 19} };

std::vector<Record> make_records(Family* f, const Plan& p, Ctx* ctx) {
  const i64* fcfg = p.cfg.data() + 1; std::vector<Record> out;
  SimRandom rnd(p.run_seed); RandomScope rs(rnd);
  std::unique_ptr<Sk> sk(f->make(fcfg)); int idx = 0;
  for (const Step& s : p.steps) {
    if (ctx) ctx->begin_step(idx, s.kind);
    rnd.rng.seed(mix(p.run_seed, static_cast<u64>(idx))); idx++;
    if (s.kind == OP_CHECKPOINT) { int v = static_cast<int>(s.a) % f->n_variants(); if (!sk->variant_ok(v)) v = 0; Record r; r.variant = v;
      if (!sk->state_consistent()) { r.obs = "THROWS (object in a recorded inconsistent state, image not judged)"; out.push_back(std::move(r)); continue; }
      r.img = sk->ser(v, 0); { std::unique_ptr<Sk> src(sk->image_source(v)); r.mem = src->obs(true); }
      // what the writing version itself sees when it reads the image back (not the in-memory source: a writer defect of the baseline is C09's business)
      try { ExactBuf eb(r.img.data(), r.img.size()); std::unique_ptr<Sk> back(sk->de(v, eb.p, eb.n)); r.obs = back->obs(false); } catch (const std::exception& e) { r.obs = std::string("THROWS ") + e.what(); }
      out.push_back(std::move(r)); }
    else apply_history_step(f, fcfg, *sk, s);
  }
  return out;
}

struct C10World: World {
  const char* name() const override { return "c10" GROUP_NAME; }
  const char* step_name(int k) const override { switch (k) { case OP_FEED: return "feed"; case OP_MERGE: return "merge"; case OP_MERGE_MOVE: return "merge_move"; case OP_RESET: return "reset"; case OP_CHECKPOINT: return "checkpoint"; case 99: return "read_peer_image"; default: return "step"; } }
  std::string family_of(const Plan& p) const override { return p.cfg.empty() ? "?" : family_at(p.cfg[0])->name(); }
  bool shrinkable() const override { return false; }   // the peer's records exist for the generated plan only
  Plan generate(u64 run_seed, int tier) override {
    Plan p; p.run_seed = run_seed; Rng rc(run_seed, "cfg"), rp(run_seed, "plan");
    i64 fi = static_cast<i64>(rc.below(fam::families().size())); Family* f = family_at(fi);
    p.cfg.push_back(fi); f->gen_cfg(rc, p.cfg, tier);
    int n = static_cast<int>(rp.range(2, tier ? 14 : 8));
    for (int i = 0; i < n; i++) {
      Step s; unsigned roll = static_cast<unsigned>(rp.below(100));
      if (roll < 55) { s.kind = roll < 40 ? OP_FEED : roll < 47 ? OP_MERGE : roll < 52 ? OP_MERGE_MOVE : OP_RESET; s.a = rp.range(0, 2000); static const i64 counts[] = { 0, 1, 2, 3, 5, 9, 33, 70, 150, 400, 1200 }; s.b = std::min<i64>(rp.pick(counts), tier ? 1200 : 400); s.c = static_cast<i64>(rp.below(64)); }
      else { s.kind = OP_CHECKPOINT; s.a = static_cast<i64>(rp.below(static_cast<u64>(f->n_variants()))); }
      p.steps.push_back(s);
    }
    { Step s; s.kind = OP_CHECKPOINT; s.a = static_cast<i64>(rp.below(static_cast<u64>(f->n_variants()))); p.steps.push_back(s); }
    return p;
  }
  void execute(const Plan& p, Ctx& ctx) override {
    alloc_state().reset_counters(); alloc_state().budget = static_cast<size_t>(1) << 30; item_state().errors.clear();
    Family* f = family_at(p.cfg[0]); if (static_cast<int>(p.cfg.size()) < 1 + f->cfg_len()) return;
    std::vector<Record> mine; bool mine_ok = true;
    try { mine = make_records(f, p, &ctx); } catch (const std::exception&) { mine_ok = false; mine.clear(); ctx.probe("own_execution_of_plan_threw"); }   // only the reading side matters here; C09/C16 judge the execution
    const i64* fcfg = p.cfg.data() + 1; std::unique_ptr<Sk> proto(f->make(fcfg));
    const std::string fam_name = proto->fam();
    // (d) preamble-level foreign reader: serial version and family id as documented
    for (const Record& r : mine) {
      for (const Ids& id : IDS) if (fam_name.rfind(id.prefix, 0) == 0) {
        if (r.img.size() >= 3) {
          const int sv = r.img[1], fm = r.img[2];
          bool sv_ok = id.serial >= 0 ? sv == id.serial : (id.serial == -3 ? (sv == 3 || sv == 4) : (sv == 1 || sv == 2));
          if (!sv_ok || fm != id.family) ctx.fail("C10|" + fam_name + "|v" + std::to_string(r.variant) + "|documented-ids", "serial version byte " + std::to_string(sv) + " family byte " + std::to_string(fm) + " (documented family " + std::to_string(id.family) + ")");
          ctx.check();
        }
        break;
      }
#if defined(GROUP_QUANT)
      // a reader written from the documented KLL layout (full preamble: k at bytes 4-5, n at 8-15, min_k at 16-17) recovers what the API reported
      if (fam_name.rfind("kll", 0) == 0 && r.img.size() >= 20 && r.img[0] == 5 && !r.mem.empty()) {
        auto field = [&](const char* key) { const size_t at = r.mem.find(key); if (at == std::string::npos) return std::string(); const size_t e = r.mem.find(' ', at); return r.mem.substr(at + std::strlen(key), e == std::string::npos ? std::string::npos : e - at - std::strlen(key)); };
        const u64 k_img = load32le(r.img.data() + 4) & 0xffff, n_img = load64le(r.img.data() + 8), mink_img = load32le(r.img.data() + 16) & 0xffff;
        const std::string nre_img = fam::d2s(datasketches::kll_sketch<float>::get_normalized_rank_error(static_cast<uint16_t>(mink_img), false)) + "/" + fam::d2s(datasketches::kll_sketch<float>::get_normalized_rank_error(static_cast<uint16_t>(mink_img), true));
        if (field("k=") != std::to_string(k_img) || field("n=") != std::to_string(n_img) || (!field("nre=").empty() && field("nre=") != nre_img))
          ctx.fail("C10|" + fam_name + "|v" + std::to_string(r.variant) + "|documented-fields-differ-from-what-the-api-reports", "image: k " + std::to_string(k_img) + " n " + std::to_string(n_img) + " min_k " + std::to_string(mink_img) + " (rank error " + nre_img + "); api: k " + field("k=") + " n " + field("n=") + " rank error " + field("nre="));
        ctx.check(); ctx.probe("kll_documented_fields_checked"); }
#endif
      ctx.t(fnv1a(r.img.data(), r.img.size())); ctx.t(r.obs);
    }
    if (peer_failed().count(p.run_seed)) { ctx.probe("peer_failed_to_execute_plan"); return; }
    auto it = peer().find(p.run_seed);
    if (it == peer().end()) { ctx.probe("no_peer_records_for_run"); return; }
    const std::vector<Record>& theirs = it->second;
    // the two versions may not get equally far through a plan (an exception of the library ends a run of the version that has the defect); the records both
    // wrote are compared, the rest is counted
    if (mine_ok && theirs.size() != mine.size()) ctx.probe("record_count_differs_between_versions");
    for (size_t i = 0; i < theirs.size(); i++) {
      const Record& t = theirs[i]; const std::string where = "record " + std::to_string(i) + " (" + std::to_string(t.img.size()) + " bytes)";
      const std::string fpfx = "C10|" + fam_name + "|v" + std::to_string(t.variant) + "|";
      ctx.begin_step(1000 + static_cast<int>(i), 99);
      // an image its own writer cannot read back is a defect of the writing version in producing it, not of this version in reading it
      if (t.obs.rfind("THROWS ", 0) == 0) { ctx.probe("writing_version_could_not_read_its_own_image"); continue; }
      std::unique_ptr<Sk> got;
      { ExactBuf eb(t.img.data(), t.img.size()); try { got.reset(proto->de(t.variant, eb.p, eb.n)); } catch (const std::exception& e) { ctx.fail(fpfx + "peer-image-rejected", where + ": " + e.what()); } }
      std::string o;
      try { o = got->obs(false); }
      catch (const std::exception& e) {
#ifdef DSIM_BASELINE
        ctx.probe("baseline_getter_threw_on_restored_sketch"); continue;   // frozen baseline defects (restored var_opt) are not verdicts of the downgrade direction
#else
        ctx.fail(fpfx + "peer-image-unusable", where + ": " + e.what());
#endif
      }
      if (stable(o, fam_name) != stable(t.obs, fam_name)) ctx.fail(fpfx + "peer-image-read-differently", where + ": this version sees " + o.substr(0, 300) + " ; the writing version saw " + t.obs.substr(0, 300));
      if (proto->has_stream_reader(t.variant)) {
        SimFileBuf fb(t.img.data(), t.img.size(), 0, 64, static_cast<size_t>(-1), static_cast<size_t>(-1)); std::istream is(&fb); std::unique_ptr<Sk> g2;
        try { g2.reset(proto->de_is(t.variant, is)); } catch (const std::exception& e) { ctx.fail(fpfx + "peer-image-rejected-by-stream-reader", where + ": " + e.what()); }
        std::string o2; try { o2 = g2->obs(false); } catch (const std::exception&) { o2 = o; }
        if (stable(o2, fam_name) != stable(t.obs, fam_name)) ctx.fail(fpfx + "peer-image-read-differently-by-stream-reader", where);
      }
      // restart after the upgrade with redelivery: for the distinct-counting families everything the writer had seen up to this checkpoint is offered again to
      // the restored sketch; it holds all of it already, so nothing may change (an in-place table whose probe sequence this version no longer follows would
      // not find what it holds)
      if (fam_name == "hll" || fam_name == "cpc") {   // (a restored theta sketch is compact: continuing it goes through a union, which changes its form)
        std::vector<const Step*> seen; size_t cp = 0;
        for (const Step& st : p.steps) { if (st.kind == OP_CHECKPOINT) { if (cp == i) break; cp++; } else if (st.kind == OP_RESET) seen.clear(); else if (st.kind == OP_FEED) seen.push_back(&st); else { seen.clear(); break; } }   // merges bring other objects: only pure feed histories are redelivered
        if (!seen.empty() && got->can_continue()) { try { for (const Step* st : seen) apply_history_step(family_at(p.cfg[0]), p.cfg.data() + 1, *got, *st); } catch (const std::exception&) { seen.clear(); }
          if (!seen.empty()) { const std::string after = got->obs(false); if (stable(after, fam_name) != stable(o, fam_name)) ctx.fail(fpfx + "redelivery-after-restart-changes-restored-sketch", where + ": " + o.substr(0, 200) + " became " + after.substr(0, 200)); ctx.fault("dup"); ctx.probe("redelivery_after_version_change"); } } }
      ctx.check(); ctx.fault("version_skew"); ctx.nontrivial = true;
      // reported, not judged: a repair may legitimately change an image (REQ raw items, frequent items with no active items)
      if (i < mine.size()) { if (mine[i].img == t.img) ctx.probe("image_bytes_identical_across_versions"); else if (proto->canonical(t.variant, mine[i].img) == proto->canonical(t.variant, t.img)) ctx.probe("image_identical_up_to_table_order"); else ctx.probe("image_bytes_differ_across_versions");
        if (mine[i].obs != t.obs) ctx.probe("observation_differs_across_versions"); }
    }
  }
};

std::string family_for_file(const std::string& fn) {
  if (fn.rfind("theta_", 0) == 0) return "theta"; if (fn.rfind("kll_sketch_float", 0) == 0) return "kll<float>"; if (fn.rfind("Qk", 0) == 0) return "quantiles<double>";
  if (fn.find("tdigest") == 0) return fn.find("double") != std::string::npos ? "tdigest<double>" : "tdigest<float>"; return "";
}
Family* family_named(const std::string& n) { for (Family* f : fam::families()) if (n == f->name()) return f; return nullptr; }
std::unique_ptr<Sk> proto_for(Family* f) { std::vector<i64> cfg; Rng r(7); f->gen_cfg(r, cfg, 0); if (std::string(f->name()) == "theta") { cfg[2] = 0; cfg[3] = 0; } return std::unique_ptr<Sk>(f->make(cfg.data())); }

// dump: records of runs [from, from+count) and the shipped reference images as this version reads them
int cmd_dump(const Args& a) {
  World* w = find_world(a.get("world")); if (!w) return 2;
  const u64 seed = a.num("seed", 1), from = a.num("from", 0), count = a.num("count", 10); const int tier = static_cast<int>(a.num("tier", 0));
  std::ofstream out(a.get("out"));
  for (u64 i = from; i < from + count; i++) {
    Plan p = w->generate(run_seed_for(seed, w->name(), i), tier); p.world = w->name();
    Family* f = family_at(p.cfg[0]);
    std::vector<Record> recs; try { recs = make_records(f, p, nullptr); } catch (const std::exception& e) { out << "X " << p.run_seed << " " << e.what() << "\n"; continue; }
    // every record line ends with a checksum of itself: a writer that dies (the old release on one of its repaired defects) leaves a cut line at the end of
    // its part file, which must not be read as a record
    for (size_t k = 0; k < recs.size(); k++) { std::ostringstream ln; ln << "R " << p.run_seed << " " << k << " " << recs[k].variant << " " << (recs[k].img.empty() ? "-" : hex(recs[k].img)) << "\t" << recs[k].obs;
      const std::string body = ln.str(); out << body << "\t$" << fnv1a(body.data(), body.size()) << "\n"; }
    out.flush();
  }
  const std::string refs = a.get("refs");
  if (!refs.empty()) {
    std::istringstream rs(refs); std::string path;
    while (std::getline(rs, path, ':')) {
      std::string fn = path.substr(path.rfind('/') + 1); std::string famn = family_for_file(fn); Family* f = family_named(famn); if (!f) continue;
      std::string data = read_file(path); Bytes img(data.begin(), data.end());
      try { std::unique_ptr<Sk> proto = proto_for(f); std::unique_ptr<Sk> got(proto->de(0, img.data(), img.size())); out << "F " << fn << " " << famn << " " << hex(img) << "\t" << got->obs(false) << "\n"; }
      catch (const std::exception& e) { out << "F " << fn << " " << famn << " " << hex(img) << "\tREJECTED " << e.what() << "\n"; }
    }
  }
  return 0;
}
// refs: every shipped image recorded by the peer must be read to the same observation by this version
int cmd_refs(const Args&) {
  int bad = 0, n = 0;
  for (const RefImage& r : peer_refs()) {
    Family* f = family_named(r.family); if (!f) continue; n++;
    std::string o;
    try { std::unique_ptr<Sk> proto = proto_for(f); ExactBuf eb(r.img.data(), r.img.size()); std::unique_ptr<Sk> got(proto->de(0, eb.p, eb.n)); o = got->obs(false);
      if (proto->has_stream_reader(0)) { SimFileBuf fb(r.img.data(), r.img.size(), 0, 64, static_cast<size_t>(-1), static_cast<size_t>(-1)); std::istream is(&fb); std::unique_ptr<Sk> g2(proto->de_is(0, is)); if (g2->obs(false) != o) o += " STREAM-READER-DIFFERS"; } }
    catch (const std::exception& e) { o = std::string("REJECTED ") + e.what(); }
    const bool ok = stable(o, r.family) == stable(r.obs, r.family);
    printf("{\"type\":\"ref\",\"file\":%s,\"family\":%s,\"ok\":%s,\"detail\":%s}\n", jstr(r.file).c_str(), jstr(r.family).c_str(), ok ? "true" : "false", jstr(ok ? "" : ("this version: " + o.substr(0, 200) + " ; peer: " + r.obs.substr(0, 200))).c_str());
    if (!ok) bad++;
  }
  printf("{\"type\":\"refs_done\",\"checked\":%d,\"bad\":%d}\n", n, bad);
  return bad ? 1 : 0;
}

#if defined(GROUP_DISTINCT)
// ---- legacy Theta images (serial versions 1 and 2) synthesised by an encoder written from the documented layout, and
// ---- hashing of every input length against the independent MurmurHash3 (block boundaries 15/16/17, 31/32/33, ...)
struct C10LegacyWorld: World {
  typedef talloc<uint64_t> A; typedef datasketches::update_theta_sketch_alloc<A> U; typedef datasketches::compact_theta_sketch_alloc<A> C; typedef datasketches::wrapped_compact_theta_sketch_alloc<A> W;
  const char* name() const override { return "c10ld"; }
  const char* step_name(int k) const override { return k == 1 ? "legacy_v1" : k == 2 ? "legacy_v2" : k == 3 ? "hash_lengths" : k == 4 ? "legacy_tuple" : "step"; }
  std::string family_of(const Plan&) const override { return "theta-legacy"; }
  Plan generate(u64 run_seed, int) override { Plan p; p.run_seed = run_seed; Rng r(run_seed, "plan"); static const i64 cnt[] = { 0, 1, 2, 5, 31, 32, 33, 100, 400, 2000 }; p.cfg = { r.range(5, 8), static_cast<i64>(r.below(3)), r.pick(cnt), static_cast<i64>(r.below(100000)), static_cast<i64>(r.below(4)) };
    for (int k = 1; k <= 4; k++) { Step s; s.kind = k; s.a = static_cast<i64>(r.below(4)); s.b = static_cast<i64>(r.below(1000)); p.steps.push_back(s); } return p; }
  static void put32(Bytes& b, size_t off, uint32_t v) { std::memcpy(b.data() + off, &v, 4); } static void put64(Bytes& b, size_t off, u64 v) { std::memcpy(b.data() + off, &v, 8); }
  void check_image(Ctx& ctx, const Bytes& img, u64 seed, u64 theta, const std::vector<u64>& entries, bool empty, const char* which) {
    const std::string fpfx = std::string("C10|theta|legacy-") + which + "|";
    auto cmp = [&](bool e, u64 t, std::vector<u64> got, const char* reader) {
      std::sort(got.begin(), got.end());
      if (e != empty || (!empty && t != theta) || got != entries) ctx.fail(fpfx + reader + "-reads-legacy-image-differently", "empty " + std::to_string(e) + "/" + std::to_string(empty) + " theta " + std::to_string(t) + "/" + std::to_string(theta) + " entries " + std::to_string(got.size()) + "/" + std::to_string(entries.size()) + (got.size() == entries.size() && !got.empty() && got != entries ? " (values differ)" : ""));
      ctx.check(); };
    { ExactBuf eb(img.data(), img.size()); C c = C::deserialize(eb.p, eb.n, seed, A(1)); std::vector<u64> g; for (auto it = c.begin(); it != c.end(); ++it) g.push_back(*it); cmp(c.is_empty(), c.get_theta64(), g, "bytes-reader"); }
    { SimFileBuf fb(img.data(), img.size(), 0, 7, static_cast<size_t>(-1), static_cast<size_t>(-1)); std::istream is(&fb); C c = C::deserialize(is, seed, A(1)); std::vector<u64> g; for (auto it = c.begin(); it != c.end(); ++it) g.push_back(*it); cmp(c.is_empty(), c.get_theta64(), g, "stream-reader");
      ctx.require(fb.consumed() == img.size(), (fpfx + "stream-reader-consumed-wrong-length").c_str(), std::to_string(fb.consumed()) + " of " + std::to_string(img.size())); }
    { ExactBuf eb(img.data(), img.size()); W w = W::wrap(eb.p, eb.n, seed); std::vector<u64> g; for (auto it = w.begin(); it != w.end(); ++it) g.push_back(*it); cmp(w.is_empty(), w.get_theta64(), g, "wrap"); }
    ctx.fault("version_skew"); ctx.nontrivial = true;
  }
  void execute(const Plan& p, Ctx& ctx) override {
    alloc_state().reset_counters(); alloc_state().budget = static_cast<size_t>(1) << 30;
    static const u64 seeds[3] = { datasketches::DEFAULT_SEED, 12345, 0x9e3779b97f4a7c15ULL }; static const float ps[4] = { 1.0f, 0.5f, 0.1f, 1.0f };
    const u64 seed = seeds[p.cfg[1] % 3];
    U u = U::builder(A(1)).set_lg_k(static_cast<uint8_t>(p.cfg[0])).set_p(ps[p.cfg[4] & 3]).set_seed(seed).build();
    for (i64 j = 0; j < p.cfg[2]; j++) u.update(static_cast<int64_t>(p.cfg[3] + j));
    std::vector<u64> entries; for (auto it = u.begin(); it != u.end(); ++it) entries.push_back(*it); std::sort(entries.begin(), entries.end());
    const u64 theta = u.get_theta64(); const bool empty = u.is_empty(); const uint16_t seed_hash = u.get_seed_hash(); const u64 MAXT = 0x7fffffffffffffffULL;
    int idx = 0;
    for (const Step& s : p.steps) {
      ctx.begin_step(idx++, s.kind);
      if (s.kind == 1) {   // serial version 1: 3 preamble longs, entry count at byte 8, theta at byte 16, ordered entries from byte 24; no seed hash
        Bytes img(24 + 8 * entries.size(), 0); img[0] = 3; img[1] = 1; img[2] = 3; put32(img, 8, static_cast<uint32_t>(entries.size())); put64(img, 16, empty ? MAXT : theta);
        for (size_t i = 0; i < entries.size(); i++) put64(img, 24 + 8 * i, entries[i]);
        if (!empty && entries.empty() && theta == MAXT) continue;
        check_image(ctx, img, seed, theta, entries, empty || (entries.empty() && theta == MAXT), "v1");
      } else if (s.kind == 2) {   // serial version 2: 1 long when empty, 2 longs in exact mode (count at byte 8), 3 longs in estimation mode (theta at byte 16); seed hash at byte 6
        const int shape = empty ? 1 : (theta == MAXT && (s.a & 1) ? 2 : 3);
        Bytes img(shape == 1 ? 8 : shape == 2 ? 16 + 8 * entries.size() : 24 + 8 * entries.size(), 0);
        img[0] = static_cast<uint8_t>(shape); img[1] = 2; img[2] = 3; std::memcpy(img.data() + 6, &seed_hash, 2);
        if (shape >= 2) put32(img, 8, static_cast<uint32_t>(entries.size())); if (shape == 3) put64(img, 16, theta);
        for (size_t i = 0; i < entries.size(); i++) put64(img, (shape == 2 ? 16 : 24) + 8 * i, entries[i]);
        if (!empty && entries.empty()) continue;   // the legacy formats cannot express "non-empty with nothing retained" below theta MAX distinctly in shape 2
        check_image(ctx, img, seed, theta, entries, empty, shape == 1 ? "v2-empty" : shape == 2 ? "v2-exact" : "v2-estimation");
        ctx.probe(shape == 1 ? "legacy_v2_empty" : shape == 2 ? "legacy_v2_exact" : "legacy_v2_estimation");
      } else if (s.kind == 3) {   // every input length 0..80: the retained hash must be the published MurmurHash3 of exactly those bytes
        U h = U::builder(A(1)).set_lg_k(12).set_seed(seed).build(); std::set<u64> want;
        for (size_t len = 1; len <= 80; len++) { uint8_t buf[80]; for (size_t i = 0; i < len; i++) buf[i] = static_cast<uint8_t>(s.b * 31 + static_cast<i64>(i * 7 + len)); h.update(static_cast<const void*>(buf), len); want.insert(murmur3_x64_128(buf, len, seed).h1 >> 1);
          std::string str(reinterpret_cast<const char*>(buf), len); for (char& c : str) if (c == 0) c = 1; h.update(str); want.insert(murmur3_x64_128(str.data(), str.size(), seed).h1 >> 1); }
        std::set<u64> got; for (auto it = h.begin(); it != h.end(); ++it) got.insert(*it);
        if (got != want) ctx.fail("C10|theta|hash-of-some-input-length-differs-from-published-murmur3", std::to_string(got.size()) + " vs " + std::to_string(want.size()) + " distinct hashes");
        ctx.check(); ctx.probe("hash_lengths_1_to_80");
      }
      else if (s.kind == 4) {   // Tuple images with the legacy ids (serial version 1, sketch type 5; the layout is the current one): both readers must accept them and recover the content
        typedef talloc<double> DA; typedef datasketches::update_tuple_sketch<double, double, datasketches::default_tuple_update_policy<double, double>, DA> TU; typedef datasketches::compact_tuple_sketch<double, DA> TC;
        TU tu = typename TU::builder(datasketches::default_tuple_update_policy<double, double>(), DA(1)).set_lg_k(static_cast<uint8_t>(p.cfg[0])).set_p(ps[p.cfg[4] & 3]).set_seed(seed).build();
        for (i64 j = 0; j < p.cfg[2]; j++) tu.update(static_cast<int64_t>(p.cfg[3] + j), 0.5 * static_cast<double>(1 + j % 5));
        TC orig = tu.compact((s.a & 1) != 0); auto bytes = orig.serialize(0, datasketches::serde<double>()); Bytes img(bytes.begin(), bytes.end());
        if (img.size() >= 8) { img[1] = 1; img[3] = 5; }
        auto content = [](const TC& c) { std::vector<std::pair<u64, double>> e; for (auto it = c.begin(); it != c.end(); ++it) e.push_back(std::make_pair(it->first, it->second)); std::sort(e.begin(), e.end());
          std::string o = std::to_string(c.get_theta64()) + "/" + std::to_string(c.is_empty()) + ":"; for (auto& kv : e) o += std::to_string(kv.first) + "*" + hexd(kv.second) + ","; return o; };
        const std::string want = content(orig);
        try { ExactBuf eb(img.data(), img.size()); TC a = TC::deserialize(eb.p, eb.n, seed, datasketches::serde<double>(), DA(1)); if (content(a) != want) ctx.fail("C10|tuple|legacy-ids|bytes-reader-reads-legacy-image-differently", ""); }
        catch (const std::invalid_argument& e) { ctx.fail("C10|tuple|legacy-ids|bytes-reader-rejects-legacy-image", e.what()); }
        try { SimFileBuf fb(img.data(), img.size(), 0, 7, static_cast<size_t>(-1), static_cast<size_t>(-1)); std::istream is(&fb); TC b = TC::deserialize(is, seed, datasketches::serde<double>(), DA(1)); if (content(b) != want) ctx.fail("C10|tuple|legacy-ids|stream-reader-reads-legacy-image-differently", "");
          ctx.require(fb.consumed() == img.size(), "C10|tuple|legacy-ids|stream-reader-consumed-wrong-length", ""); }
        catch (const std::invalid_argument& e) { ctx.fail("C10|tuple|legacy-ids|stream-reader-rejects-legacy-image", e.what()); }
        ctx.check(); ctx.fault("version_skew"); ctx.probe("legacy_tuple_ids"); ctx.nontrivial = true;
      }
      ctx.t(static_cast<u64>(entries.size())); ctx.t(theta);
    }
  }
};
static void register_extra() { static C10LegacyWorld l; registry().push_back(&l); }
#elif defined(GROUP_MISC)
#include <bloom_filter.hpp>
// hashing of every input length against the independent XXH64 (stripe boundary at 32 bytes), observed through the Bloom filter's bit array
struct C10HashWorld: World {
  typedef talloc<uint8_t> A; typedef datasketches::bloom_filter_alloc<A> S;
  const char* name() const override { return "c10hm"; }
  const char* step_name(int) const override { return "hash_lengths"; }
  std::string family_of(const Plan&) const override { return "bloom-hash"; }
  Plan generate(u64 run_seed, int) override { Plan p; p.run_seed = run_seed; Rng r(run_seed, "plan"); p.cfg = { static_cast<i64>(r.below(3)), r.range(1, 5) }; Step s; s.kind = 1; s.b = static_cast<i64>(r.below(1000)); p.steps.push_back(s); return p; }
  void execute(const Plan& p, Ctx& ctx) override {
    alloc_state().reset_counters(); alloc_state().budget = static_cast<size_t>(1) << 30;
    static const u64 seeds[3] = { datasketches::DEFAULT_SEED, 12345, 0x9e3779b97f4a7c15ULL }; const u64 seed = seeds[p.cfg[0] % 3]; const int nh = static_cast<int>(p.cfg[1]); const u64 cap = 1 << 16;
    int idx = 0;
    for (const Step& s : p.steps) {
      ctx.begin_step(idx++, s.kind);
      for (size_t len = 1; len <= 100; len++) {
        uint8_t buf[100]; for (size_t i = 0; i < len; i++) buf[i] = static_cast<uint8_t>(1 + (s.b * 31 + static_cast<i64>(i * 7 + len)) % 250);
        for (int form = 0; form < 2; form++) {
          S f = S::builder::create_by_size(cap, static_cast<uint16_t>(nh), seed, A(1));
          if (form == 0) f.update(static_cast<const void*>(buf), len); else f.update(std::string(reinterpret_cast<const char*>(buf), len));
          const u64 h0 = xxh64(buf, len, seed), h1 = xxh64(buf, len, h0); Bytes want(cap >> 3, 0); for (int i = 1; i <= nh; i++) { u64 ix = ((h0 + static_cast<u64>(i) * h1) >> 1) % cap; want[ix >> 3] |= static_cast<uint8_t>(1u << (ix & 7)); }
          auto img = f.serialize();
          if (img.size() != 32 + want.size() || std::memcmp(img.data() + 32, want.data(), want.size()) != 0) ctx.fail("C10|bloom|hash-of-some-input-length-differs-from-published-xxh64", "input of " + std::to_string(len) + " bytes");
          ctx.check();
        }
      }
      ctx.probe("hash_lengths_1_to_100"); ctx.nontrivial = true; ctx.fault("version_skew");
    }
  }
};
static void register_extra() { static C10HashWorld h; registry().push_back(&h); }
#elif defined(GROUP_QUANT)
#include <tdigest.hpp>
// t-digest images in the two formats of the reference implementation (MergingDigest.asBytes / asSmallBytes; big-endian), synthesised by an encoder
// written from that layout: type 1: double min, double max, double compression, int32 count, then (double weight, double mean) per centroid;
// type 2: double min, double max, float compression, int16 centroid capacity, int16 buffer capacity, int16 count, then (float weight, float mean)
struct C10TdRefWorld: World {
  const char* name() const override { return "c10tq"; }
  const char* step_name(int k) const override { return k == 1 ? "reference_double_encoding" : "reference_small_encoding"; }
  std::string family_of(const Plan&) const override { return "tdigest-reference-format"; }
  Plan generate(u64 run_seed, int) override { Plan p; p.run_seed = run_seed; Rng r(run_seed, "plan"); static const i64 ks[] = { 10, 50, 100, 200 }; p.cfg = { r.pick(ks), r.range(1, 40), static_cast<i64>(r.below(100000)) };
    for (int k = 1; k <= 2; k++) { Step s; s.kind = k; p.steps.push_back(s); } return p; }
  template<typename V> static void put_be(Bytes& b, V v) { uint8_t raw[sizeof(V)]; std::memcpy(raw, &v, sizeof(V)); for (size_t i = 0; i < sizeof(V); i++) b.push_back(raw[sizeof(V) - 1 - i]); }
  template<typename T> void check(Ctx& ctx, const Bytes& img, const char* which, u64 k, double mn, double mx, u64 total) {
    typedef datasketches::tdigest<T, talloc<T>> S; const std::string fpfx = std::string("C10|tdigest<") + (sizeof(T) == 8 ? "double" : "float") + ">|" + which + "|";
    auto judge = [&](const S& s, const char* reader) {
      if (s.get_k() != k || s.get_total_weight() != total || static_cast<double>(s.get_min_value()) != static_cast<double>(static_cast<T>(mn)) || static_cast<double>(s.get_max_value()) != static_cast<double>(static_cast<T>(mx)))
        ctx.fail(fpfx + reader + "-reads-reference-image-differently", "k " + std::to_string(s.get_k()) + "/" + std::to_string(k) + " weight " + std::to_string(s.get_total_weight()) + "/" + std::to_string(total) + " min " + hexd(s.get_min_value()) + "/" + hexd(mn) + " max " + hexd(s.get_max_value()) + "/" + hexd(mx));
      ctx.check(); };
    ExactBuf eb(img.data(), img.size()); S a = S::deserialize(eb.p, eb.n, talloc<T>(1)); judge(a, "bytes-reader");
    SimFileBuf fb(img.data(), img.size(), 0, 5, static_cast<size_t>(-1), static_cast<size_t>(-1)); std::istream is(&fb); S b = S::deserialize(is, talloc<T>(1)); judge(b, "stream-reader");
    ctx.require(fb.consumed() == img.size(), (fpfx + "stream-reader-consumed-wrong-length").c_str(), std::to_string(fb.consumed()) + " of " + std::to_string(img.size()));
    for (double r : { 0.0, 0.1, 0.5, 0.9, 1.0 }) ctx.require(a.get_quantile(r) == b.get_quantile(r), (fpfx + "stream-and-bytes-readers-disagree").c_str(), "quantile " + hexd(r));
    ctx.fault("version_skew"); ctx.nontrivial = true;
  }
  void execute(const Plan& p, Ctx& ctx) override {
    alloc_state().reset_counters(); alloc_state().budget = static_cast<size_t>(1) << 30;
    const u64 k = static_cast<u64>(p.cfg[0]); const int nc = static_cast<int>(p.cfg[1]); Rng r(p.run_seed, "centroids");
    std::vector<double> means, weights; double cur = static_cast<double>(p.cfg[2] % 1000) + 0.5; u64 total = 0;   // exactly representable in float as well
    for (int i = 0; i < nc; i++) { means.push_back(cur); const u64 w = (i == 0 || i == nc - 1) ? 1 : 1 + r.below(9); weights.push_back(static_cast<double>(w)); total += w; cur += 1.0 + static_cast<double>(r.below(64)) * 0.25; }
    const double mn = means.front(), mx = means.back(); int idx = 0;
    for (const Step& s : p.steps) {
      ctx.begin_step(idx++, s.kind); Bytes img;
      if (s.kind == 1) { put_be<uint32_t>(img, 1); put_be<double>(img, mn); put_be<double>(img, mx); put_be<double>(img, static_cast<double>(k)); put_be<uint32_t>(img, static_cast<uint32_t>(nc)); for (int i = 0; i < nc; i++) { put_be<double>(img, weights[static_cast<size_t>(i)]); put_be<double>(img, means[static_cast<size_t>(i)]); } }
      else { put_be<uint32_t>(img, 2); put_be<double>(img, mn); put_be<double>(img, mx); put_be<float>(img, static_cast<float>(k)); put_be<uint16_t>(img, static_cast<uint16_t>(2 * k + 30)); put_be<uint16_t>(img, static_cast<uint16_t>(5 * k)); put_be<uint16_t>(img, static_cast<uint16_t>(nc)); for (int i = 0; i < nc; i++) { put_be<float>(img, static_cast<float>(weights[static_cast<size_t>(i)])); put_be<float>(img, static_cast<float>(means[static_cast<size_t>(i)])); } }
      check<double>(ctx, img, s.kind == 1 ? "reference-double" : "reference-small", k, mn, mx, total); check<float>(ctx, img, s.kind == 1 ? "reference-double" : "reference-small", k, mn, mx, total);
      ctx.t(static_cast<u64>(img.size())); ctx.t(total);
    }
  }
};
// classic quantiles images as another writer of the documented layout may produce them: compact, with the ordered flag clear and the base buffer in
// arrival order (step 1, serial version 3), and the same content labelled serial version 2 (no flags, implicitly compact). Flags are independent bits
// of the layout; the reader must recover the same logical content (n, extremes, ranks, quantiles) as from the image this library writes.
struct C10QuantForeignWorld: World {
  typedef datasketches::quantiles_sketch<double, std::less<double>, talloc<double>> S;
  const char* name() const override { return "c10qq"; }
  const char* step_name(int k) const override { return k == 1 ? "compact_unordered_v3" : "compact_unordered_v2"; }
  std::string family_of(const Plan&) const override { return "quantiles-foreign-writer"; }
  Plan generate(u64 run_seed, int) override { Plan p; p.run_seed = run_seed; Rng r(run_seed, "plan"); static const i64 ks[] = { 2, 4, 8, 16, 32, 128 }; const i64 k = r.pick(ks);
    p.cfg = { k, r.range(2, 2 * k - 1), static_cast<i64>(r.below(4)), static_cast<i64>(r.below(3)), static_cast<i64>(r.below(100000)) };   // k, base-buffer count, full 2k blocks, order, salt
    for (int i = 1; i <= 2; i++) { Step s; s.kind = i; p.steps.push_back(s); } return p; }
  void execute(const Plan& p, Ctx& ctx) override {
    alloc_state().reset_counters(); alloc_state().budget = static_cast<size_t>(1) << 30;
    SimRandom rnd(p.run_seed); RandomScope rs(rnd);
    const uint16_t k = static_cast<uint16_t>(p.cfg[0]); const u64 bb = static_cast<u64>(p.cfg[1]); const u64 n = static_cast<u64>(p.cfg[2]) * 2 * k + bb;
    S sk(k, std::less<double>(), talloc<double>(1)); std::vector<double> vals;
    for (u64 i = 0; i < n; i++) { u64 z = static_cast<u64>(p.cfg[4]) * 1000003ULL + i; vals.push_back(static_cast<double>(splitmix64(z) % 100000) / 8.0); sk.update(vals.back()); }
    auto own = sk.serialize(); Bytes img(own.begin(), own.end());
    const size_t off = 32; if (img.size() < off + 8 * bb || (img[3] & 0x18) != 0x18) { ctx.probe("own_image_not_compact_ordered"); return; }
    std::vector<double> base(bb); std::memcpy(base.data(), img.data() + off, 8 * bb);
    if (p.cfg[3] == 0) std::reverse(base.begin(), base.end()); else { Rng r(p.run_seed, "order"); for (size_t i = base.size(); i > 1; i--) std::swap(base[i - 1], base[r.below(i)]); }
    if (std::is_sorted(base.begin(), base.end())) { ctx.probe("base_buffer_still_ascending"); return; }
    std::memcpy(img.data() + off, base.data(), 8 * bb);
    std::vector<double> grid; for (size_t i = 0; i < vals.size(); i += std::max<size_t>(1, vals.size() / 24)) { grid.push_back(vals[i]); grid.push_back(vals[i] + 0.0625); } grid.push_back(-1.0); grid.push_back(1e9);
    int idx = 0;
    for (const Step& s : p.steps) {
      ctx.begin_step(idx++, s.kind); Bytes f = img;
      if (s.kind == 1) f[3] = static_cast<uint8_t>(f[3] & ~0x10); else { f[1] = 2; f[3] = 0; }
      const std::string fpfx = std::string("C10|quantiles<double>|") + step_name(s.kind) + "|";
      auto judge = [&](const S& r, const char* reader) {
        if (r.get_n() != n || r.get_k() != k || r.get_min_item() != sk.get_min_item() || r.get_max_item() != sk.get_max_item() || r.get_num_retained() != sk.get_num_retained())
          ctx.fail(fpfx + reader + "-reads-foreign-image-differently", "n " + std::to_string(r.get_n()) + "/" + std::to_string(n) + " retained " + std::to_string(r.get_num_retained()) + "/" + std::to_string(sk.get_num_retained()));
        for (double v : grid) if (r.get_rank(v) != sk.get_rank(v)) ctx.fail(fpfx + reader + "-reads-foreign-image-differently", "rank of " + hexd(v) + ": " + hexd(r.get_rank(v)) + " vs " + hexd(sk.get_rank(v)));
        for (int i = 0; i <= 16; i++) { const double q = static_cast<double>(i) / 16.0; if (r.get_quantile(q) != sk.get_quantile(q)) ctx.fail(fpfx + reader + "-reads-foreign-image-differently", "quantile " + hexd(q) + ": " + hexd(r.get_quantile(q)) + " vs " + hexd(sk.get_quantile(q))); }
        ctx.check(); };
      try { ExactBuf eb(f.data(), f.size()); S a = S::deserialize(eb.p, eb.n, datasketches::serde<double>(), std::less<double>(), talloc<double>(1)); judge(a, "bytes-reader"); }
      catch (const std::invalid_argument& e) { ctx.fail(fpfx + "bytes-reader-rejects-foreign-image", e.what()); }
      try { SimFileBuf fb(f.data(), f.size(), 0, 5, static_cast<size_t>(-1), static_cast<size_t>(-1)); std::istream is(&fb); S b = S::deserialize(is, datasketches::serde<double>(), std::less<double>(), talloc<double>(1)); judge(b, "stream-reader");
        ctx.require(fb.consumed() == f.size(), (fpfx + "stream-reader-consumed-wrong-length").c_str(), std::to_string(fb.consumed()) + " of " + std::to_string(f.size())); }
      catch (const std::invalid_argument& e) { ctx.fail(fpfx + "stream-reader-rejects-foreign-image", e.what()); }
      ctx.fault("version_skew"); ctx.nontrivial = true; ctx.probe(s.kind == 1 ? "foreign_quantiles_v3" : "foreign_quantiles_v2"); ctx.t(static_cast<u64>(f.size())); ctx.t(n);
    }
  }
};
static void register_extra() { static C10TdRefWorld t; registry().push_back(&t); static C10QuantForeignWorld q; registry().push_back(&q); }
#else
static void register_extra() {}
#endif

struct Init { Init() { register_families(); register_extra(); static C10World w; registry().push_back(&w); const char* pf = getenv("DSIM_PEER_FILE"); if (pf && *pf) load_peer(pf); } } init_;
} // namespace

int main(int argc, char** argv) {
  sim::selftest_hashes();
  if (argc >= 2 && (std::string(argv[1]) == "dump" || std::string(argv[1]) == "refs")) {
    Args a; for (int i = 2; i + 1 < argc; i += 2) { std::string k = argv[i]; if (k.rfind("--", 0) == 0) k = k.substr(2); a.kv[k] = argv[i + 1]; }
    return std::string(argv[1]) == "dump" ? cmd_dump(a) : cmd_refs(a);
  }
  return sim::sim_main(argc, argv);
}
