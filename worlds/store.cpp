// world `store`: a log-structured sketch store with torn / short / corrupted records (C11) and
// checkpoint -> crash -> restore -> continue histories (C09). Built once per family group.
#include "../sim/driver.hpp"
#include "../sim/seams.hpp"
#if defined(GROUP_DISTINCT)
#include "../sim/fam_distinct.hpp"
static void register_families() { fam::register_distinct(); }
#define GROUP_NAME "d"
#elif defined(GROUP_QUANT)
#include "../sim/fam_quant.hpp"
static void register_families() { fam::register_quant(); }
#define GROUP_NAME "q"
#else
#include "../sim/fam_misc.hpp"
static void register_families() { fam::register_misc(); }
#define GROUP_NAME "m"
#endif

using namespace sim;
using fam::Sk; using fam::Family; using fam::Bytes;

namespace {

enum { OP_FEED = 1, OP_MERGE = 2, OP_RESET = 3, OP_CHECKPOINT = 4, OP_CRASH = 5, OP_ONLY = 6, OP_MERGE_MOVE = 7 };
enum { F_NONE = 0, F_CHUNK = 1, F_TRAILING = 2, F_TORN = 3, F_LOST = 4 };
static const unsigned HEADERS[6] = { 0, 1, 7, 8, 16, 61 };
static const size_t CHUNKS[5] = { 1, 2, 3, 7, 4096 };

Family* family_at(i64 idx) { auto& f = fam::families(); return f[static_cast<size_t>(idx) % f.size()]; }

void gen_history(Rng& r, std::vector<Step>& steps, int n_steps, i64 max_count, bool with_merge) {
  for (int i = 0; i < n_steps; i++) {
    Step s; unsigned roll = static_cast<unsigned>(r.below(100));
    s.kind = (with_merge && roll < 15) ? OP_MERGE : (with_merge && roll < 22) ? OP_MERGE_MOVE : (roll < 25) ? OP_RESET : OP_FEED;
    if (s.kind == OP_RESET && !r.chance(1, 6)) s.kind = OP_FEED;
    s.a = r.range(0, 2000);
    static const i64 counts[] = { 0, 1, 1, 2, 3, 4, 5, 8, 9, 17, 33, 70, 150, 400, 1200 };
    i64 c = r.pick(counts); s.b = std::min(c, max_count);
    s.c = static_cast<i64>(r.below(64));
    steps.push_back(s);
  }
}

struct RunState {   // everything that has to die before the leak checks
  std::unique_ptr<Sk> cur;
};

void apply_history_step(Family* f, const i64* fcfg, Sk& sk, const Step& s) {
  switch (s.kind) {
    case OP_FEED: sk.feed(s.a, s.b, s.c); break;
    case OP_MERGE: case OP_MERGE_MOVE: {
      std::unique_ptr<Sk> other(f->make(fcfg));
      other->feed(s.a + 500, s.b, s.c);
      if (s.kind == OP_MERGE) sk.merge(*other); else sk.merge_move(*other);
      break;
    }
    case OP_RESET: sk.reset(); break;
    default: break;
  }
}

// classes of outcome of one read attempt
// `what` is a fixed array so that recording the outcome allocates nothing; global_new_leak = blocks obtained through ::operator new
// during the call that are still live after a rejection (exception object already destroyed)
struct ReadResult { bool threw = false; bool bad_alloc = false; std::unique_ptr<Sk> sk; char what[160] = {0}; long long global_new_leak = 0; };
void set_what(ReadResult& r, const char* w) { std::strncpy(r.what, w, sizeof(r.what) - 1); }

ReadResult read_bytes(const Sk& proto, int variant, const uint8_t* p, size_t n) {
  ReadResult r; ExactBuf buf(p, n);
  const long long before = g_global_new_live;
  try { r.sk.reset(proto.de(variant, buf.p, buf.n)); }
  catch (const std::bad_alloc&) { r.threw = true; r.bad_alloc = true; set_what(r, "bad_alloc"); }
  catch (const std::exception& e) { r.threw = true; set_what(r, e.what()); }
  if (r.threw) r.global_new_leak = g_global_new_live - before;
  return r;
}
ReadResult read_stream(const Sk& proto, int variant, const uint8_t* p, size_t total, size_t start, size_t chunk, size_t eof_at, size_t* consumed) {
  ReadResult r; SimFileBuf fb(p, total, start, chunk, eof_at, static_cast<size_t>(-1)); std::istream is(&fb);
  const long long before = g_global_new_live;
  try { r.sk.reset(proto.de_is(variant, is)); }
  catch (const std::bad_alloc&) { r.threw = true; r.bad_alloc = true; set_what(r, "bad_alloc"); }
  catch (const std::exception& e) { r.threw = true; set_what(r, e.what()); }
  if (r.threw) r.global_new_leak = g_global_new_live - before;
  if (consumed) *consumed = fb.consumed();
  return r;
}

std::string fp(const char* prop, const Sk& s, int variant, const char* path, const char* cls) {
  return std::string(prop) + "|" + s.fam() + "|v" + std::to_string(variant) + "|" + path + "|" + cls;
}

void check_seam_errors(Ctx& ctx, const char* prop, const Sk& s, int variant, const char* where) {
  if (!alloc_state().errors.empty()) ctx.fail(fp(prop, s, variant, where, "allocator-misuse"), alloc_state().errors[0]);
  if (!item_state().errors.empty()) ctx.fail(fp(prop, s, variant, where, "item-lifecycle"), item_state().errors[0]);
}

// the corrupted-but-accepted sketch must be usable: everything completes or throws
void battery(Family* f, const i64* fcfg, Sk& s, int variant) {
  try { s.obs(false); } catch (const std::exception&) {}
  try { std::unique_ptr<Sk> c(s.clone()); c->obs(false); } catch (const std::exception&) {}
  try { s.feed(1, 3, 0); } catch (const std::exception&) {}
  try { std::unique_ptr<Sk> fresh(f->make(fcfg)); fresh->feed(7, 5, 0); s.merge(*fresh); } catch (const std::exception&) {}
  try { s.ser(variant, 0); } catch (const std::exception&) {}
  try { std::ostringstream os; s.ser_os(variant, os); } catch (const std::exception&) {}
  try { s.obs(false); } catch (const std::exception&) {}
}

// ================================================================== C11
struct C11World: World {
  static bool tier_of(const Plan& p) { for (const Step& s : p.steps) if (s.kind == OP_ONLY && s.a == -2) return true; return false; }   // thorough plans carry a marker step
  const char* name() const override { return "c11" GROUP_NAME; }
  const char* step_name(int k) const override {
    switch (k) { case OP_FEED: return "feed"; case OP_MERGE: return "merge"; case OP_MERGE_MOVE: return "merge_move"; case OP_RESET: return "reset"; case OP_ONLY: return "only";
      case 100: return "valid_read"; case 101: return "trunc_bytes"; case 102: return "trunc_stream"; case 103: return "corrupt_bytes"; case 104: return "corrupt_stream"; default: return "step"; }
  }
  std::string family_of(const Plan& p) const override { return p.cfg.empty() ? "?" : std::string(family_at(p.cfg[0])->name()) + "|v" + std::to_string(p.cfg.size() > 1 ? p.cfg[1] : 0); }
  Plan generate(u64 run_seed, int tier) override {
    Plan p; p.run_seed = run_seed; Rng rc(run_seed, "cfg"), rp(run_seed, "plan");
    i64 fi = static_cast<i64>(rc.below(fam::families().size())); Family* f = family_at(fi);
    p.cfg.push_back(fi); p.cfg.push_back(static_cast<i64>(rc.below(static_cast<u64>(f->n_variants()))));
    f->gen_cfg(rc, p.cfg, tier);
    int n = static_cast<int>(rp.range(0, 5));
    gen_history(rp, p.steps, n, tier ? 1200 : 150, true);
    if (tier) { Step m; m.kind = OP_ONLY; m.a = -2; m.b = -1; m.c = -1; p.steps.push_back(m); }
    return p;
  }
  void execute(const Plan& p, Ctx& ctx) override {
    alloc_state().reset_counters(); item_state().errors.clear(); alloc_state().budget = static_cast<size_t>(-1);
    SimRandom rnd(p.run_seed); RandomScope rs(rnd);
    Family* f = family_at(p.cfg[0]); const int variant = static_cast<int>(p.cfg[1]) % f->n_variants(); const i64* fcfg = p.cfg.data() + 2;
    if (static_cast<int>(p.cfg.size()) < 2 + f->cfg_len()) return;
    std::unique_ptr<Sk> sk(f->make(fcfg));
    i64 only_kind = -1, only_n = -1, only_val = -1;
    int idx = 0;
    for (const Step& s : p.steps) {
      ctx.begin_step(idx++, s.kind);
      if (s.kind == OP_ONLY) { if (s.a != -2) { only_kind = s.a; only_n = s.b; only_val = s.c; } continue; }
      apply_history_step(f, fcfg, *sk, s);
    }
    bool has_history = false; for (const Step& s : p.steps) if (s.kind != OP_ONLY) has_history = true;
    // the whole fault space of one image; run for the image the history built and then for the image of the fresh (empty) object of the same family,
    // configuration and variant - empty images are the shortest ones and take reader paths of their own (flag-dependent preamble sizes)
    auto enumerate = [&](std::unique_ptr<Sk>& sk) {
    if (!sk->variant_ok(variant)) { ctx.probe("variant_not_applicable"); return; }
    if (!sk->state_consistent()) { ctx.probe("image_of_object_in_recorded_inconsistent_state_skipped"); return; }
    Bytes img = sk->ser(variant, 0);
    const std::string want = std::unique_ptr<Sk>(sk->image_source(variant))->obs(false);
    ctx.t(static_cast<u64>(img.size())); ctx.t(fnv1a(img.data(), img.size()));
    const size_t size = img.size();
    const size_t budget = std::max<size_t>(64u << 20, 4096 * size);
    const bool stream_ok = sk->has_stream_reader(variant);
    // sanity: the intact image reads back (this is C09's business; here it only guards the enumeration)
    ctx.begin_step(static_cast<int>(size), 100);
    { ReadResult r = read_bytes(*sk, variant, img.data(), size); if (r.threw) ctx.fail(fp("C11", *sk, variant, "bytes", "valid-image-rejected"), r.what); }
    // ---- every strict prefix
    std::vector<size_t> lens;
    const size_t full = p.cfg.size() > 0 && tier_of(p) ? 4096 : 1536;   // images up to this size get every prefix length
    if (size <= full) for (size_t n = 0; n < size; n++) lens.push_back(n);
    else { for (size_t n = 0; n < 256; n++) lens.push_back(n); for (size_t n = 256; n < size - 256; n *= 2) lens.push_back(n); for (size_t n = size - 256; n < size; n++) lens.push_back(n); }
    u64 rejected = 0, accepted_same = 0;
    for (int path = 0; path < 2; path++) {
      if (path == 1 && !stream_ok) continue;
      const int kind = path == 0 ? 101 : 102; const char* pname = path == 0 ? "bytes" : "stream";
      if (only_kind >= 0 && only_kind != kind) continue;
      for (size_t n : lens) {
        if (only_n >= 0 && static_cast<size_t>(only_n) != n) continue;
        ctx.begin_step(static_cast<int>(n), kind);
        alloc_state().budget = budget; alloc_state().refused = 0; alloc_state().refused_max = 0;
        AllocMark mark; const size_t items_before = item_state().live.size();
        ReadResult r = path == 0 ? read_bytes(*sk, variant, img.data(), n) : read_stream(*sk, variant, img.data(), size, 0, 4096, n, nullptr);
        alloc_state().budget = static_cast<size_t>(-1);
        const std::string where = std::string("prefix ") + std::to_string(n) + " of " + std::to_string(size);
        const bool refused = alloc_state().refused != 0;
        if (refused) {
          // a strict prefix of a small valid image never describes a sketch that needs this much: the count was read from outside the data
          if (path == 0) ctx.fail(fp("C11", *sk, variant, pname, "unbounded-allocation"), where + ": request of " + std::to_string(alloc_state().refused_max) + " bytes");
          ctx.probe("stream_prefix_huge_request");
        }
        if (r.threw) {
          rejected++;
          if (refused) { /* rejected by the budget, not by the reader: exception safety under allocation failure is not a stated property */ }
          else if (!mark.balanced()) ctx.fail(fp("C11", *sk, variant, pname, "leak-after-reject"), where + ": " + mark.diff());
          else if (r.global_new_leak > 0) ctx.fail(fp("C11", *sk, variant, pname, "leak-after-reject-outside-allocator"), where + ": " + std::to_string(r.global_new_leak) + " block(s) from ::operator new still live (e.g. the heap buffer of a string item)");
          if (item_state().live.size() != items_before) ctx.fail(fp("C11", *sk, variant, pname, "items-leak-after-reject"), where);
        } else {
          // accepted: only legitimate if the missing tail carried no information
          std::string got; Bytes again; bool ok = true;
          try { got = r.sk->obs(false); again = r.sk->ser(variant, 0); } catch (const std::exception& e) { ok = false; got = e.what(); }
          if (ok && again != img && sk->canonical(variant, again) == sk->canonical(variant, img)) again = img;
          if (!ok || got != want || again != img) ctx.fail(fp("C11", *sk, variant, pname, "truncated-image-accepted"), where + (ok ? (got != want ? ": different sketch" : ": re-serializes differently") : ": unusable: " + got));
          accepted_same++; ctx.probe("prefix_accepted_as_padding");
          r.sk.reset();
        }
        check_seam_errors(ctx, "C11", *sk, variant, pname);
        ctx.check();
      }
    }
    ctx.t(rejected); ctx.t(accepted_same);
    ctx.st.faults["truncate"] += rejected + accepted_same; ctx.nontrivial = true;
    // ---- preamble corruption
    const size_t pre = std::min<size_t>(size, 64);
    u64 c_rejected = 0, c_accepted = 0;
    for (int path = 0; path < 2; path++) {
      if (path == 1 && !stream_ok) continue;
      const int kind = path == 0 ? 103 : 104; const char* pname = path == 0 ? "corrupt-bytes" : "corrupt-stream";
      if (only_kind >= 0 && only_kind != kind) continue;
      for (size_t off = 0; off < pre; off++) {
        if (only_n >= 0 && static_cast<size_t>(only_n) != off) continue;
        const uint8_t b = img[off];
        // every single-bit flip (a count or size field moves by a power of two), the extremes, and the neighbours
        const uint8_t vals[14] = { 0x00, 0xFF, 0x7F, 0x80, static_cast<uint8_t>(b ^ 1), static_cast<uint8_t>(b ^ 0x80), static_cast<uint8_t>(b + 1), static_cast<uint8_t>(b - 1),
                                   static_cast<uint8_t>(b ^ 2), static_cast<uint8_t>(b ^ 4), static_cast<uint8_t>(b ^ 8), static_cast<uint8_t>(b ^ 16), static_cast<uint8_t>(b ^ 32), static_cast<uint8_t>(b ^ 64) };
        for (int vi = 0; vi < 14; vi++) {
          if (vals[vi] == b) continue;
          if (only_val >= 0 && only_val != vi) continue;
          bool dup = false; for (int j = 0; j < vi; j++) if (vals[j] == vals[vi]) dup = true;
          if (dup) continue;
          ctx.begin_step(static_cast<int>(off * 16 + static_cast<size_t>(vi)), kind);
          Bytes bad = img; bad[off] = vals[vi];
          alloc_state().budget = budget; alloc_state().refused = 0; alloc_state().refused_max = 0;
          AllocMark mark; const size_t items_before = item_state().live.size();
          const std::string where = std::string("byte ") + std::to_string(off) + " " + std::to_string(b) + "->" + std::to_string(vals[vi]) + " of " + std::to_string(size);
          {
            ReadResult r = path == 0 ? read_bytes(*sk, variant, bad.data(), size) : read_stream(*sk, variant, bad.data(), size, 0, 4096, size, nullptr);
            if (r.threw) { c_rejected++; if (!alloc_state().refused && r.global_new_leak > 0) ctx.fail(fp("C11", *sk, variant, pname, "leak-outside-allocator"), where + ": " + std::to_string(r.global_new_leak) + " block(s) from ::operator new still live after rejection"); }
            else { c_accepted++; battery(f, fcfg, *r.sk, variant); r.sk.reset(); }
          }
          alloc_state().budget = static_cast<size_t>(-1);
          if (alloc_state().refused) {
            // a changed configuration byte can legitimately describe a much larger (empty) sketch, so this is evidence, not a verdict
            ctx.probe(path == 0 ? "corrupt_bytes_request_over_budget" : "corrupt_stream_request_over_budget");
            // ... except for the quantile families and the t-digest read from a byte buffer: everything they hold is in the image (k is a 16-bit field), so
            // a request beyond max(64 MiB, 4096 x image) can only come from a count that was not checked against the buffer
            const std::string fam_name = sk->fam();
            if (path == 0 && (fam_name.rfind("kll", 0) == 0 || fam_name.rfind("req", 0) == 0 || fam_name.rfind("quantiles", 0) == 0 || fam_name.rfind("tdigest", 0) == 0))
              ctx.fail(fp("C11", *sk, variant, pname, "unbounded-allocation"), where + ": request of " + std::to_string(alloc_state().refused_max) + " bytes");
          }
          else if (!mark.balanced()) ctx.fail(fp("C11", *sk, variant, pname, "leak"), where + ": " + mark.diff());
          if (!alloc_state().refused && item_state().live.size() != items_before) ctx.fail(fp("C11", *sk, variant, pname, "items-leak"), where);
          check_seam_errors(ctx, "C11", *sk, variant, pname);
          ctx.check();
        }
      }
    }
    ctx.t(c_rejected); ctx.t(c_accepted);
    ctx.st.faults["bitflip"] += c_rejected + c_accepted;
    ctx.probe("corrupt_rejected", c_rejected); ctx.probe("corrupt_accepted_usable", c_accepted);
    ctx.probe((std::string("family_") + sk->fam()).c_str());
    };
    enumerate(sk);
    if (has_history) { std::unique_ptr<Sk> fresh(f->make(fcfg)); ctx.probe("fresh_object_image_enumerated"); enumerate(fresh); }
  }
};

// ================================================================== C09
struct C09World: World {
  const char* name() const override { return "c09" GROUP_NAME; }
  const char* step_name(int k) const override {
    switch (k) { case OP_FEED: return "feed"; case OP_MERGE: return "merge"; case OP_MERGE_MOVE: return "merge_move"; case OP_RESET: return "reset"; case OP_CHECKPOINT: return "checkpoint"; case OP_CRASH: return "crash"; default: return "step"; }
  }
  std::string family_of(const Plan& p) const override { return p.cfg.empty() ? "?" : family_at(p.cfg[0])->name(); }
  Plan generate(u64 run_seed, int tier) override {
    Plan p; p.run_seed = run_seed; Rng rc(run_seed, "cfg"), rp(run_seed, "plan"), rf(run_seed, "fault");
    i64 fi = static_cast<i64>(rc.below(fam::families().size())); Family* f = family_at(fi);
    p.cfg.push_back(fi); f->gen_cfg(rc, p.cfg, tier);
    const bool faults = !rc.chance(1, 10);
    int n = static_cast<int>(rp.range(2, tier ? 30 : 14));
    for (int i = 0; i < n; i++) {
      unsigned roll = static_cast<unsigned>(rp.below(100));
      if (roll < 55) gen_history(rp, p.steps, 1, tier ? 1200 : 400, true);
      else if (roll < 93) {
        Step s; s.kind = OP_CHECKPOINT; s.a = static_cast<i64>(rp.below(static_cast<u64>(f->n_variants()))); s.b = static_cast<i64>(rp.below(6)); s.c = static_cast<i64>(rp.below(2));
        if (faults) { unsigned fr = static_cast<unsigned>(rf.below(100)); if (fr < 40) { s.fault = F_CHUNK; s.fa = static_cast<i64>(rf.below(5)); } else if (fr < 60) s.fault = F_TRAILING; else if (fr < 68) { s.fault = F_TORN; s.fa = static_cast<i64>(rf.below(1000)); } else if (fr < 74) s.fault = F_LOST; }
        p.steps.push_back(s);
      } else if (faults) { Step s; s.kind = OP_CRASH; p.steps.push_back(s); }
    }
    return p;
  }

  struct Record { size_t off, len; int variant; std::string obs; bool torn; };

  void execute(const Plan& p, Ctx& ctx) override {
    alloc_state().reset_counters(); item_state().errors.clear(); alloc_state().budget = static_cast<size_t>(1) << 30;
    Family* f = family_at(p.cfg[0]); const i64* fcfg = p.cfg.data() + 1;
    if (static_cast<int>(p.cfg.size()) < 1 + f->cfg_len()) return;
    SimRandom rnd(p.run_seed); RandomScope rs(rnd);
    std::unique_ptr<Sk> orig(f->make(fcfg));
    struct Shadow { std::unique_ptr<Sk> control; std::unique_ptr<Sk> sk; int variant; bool exact; };   // control: the in-memory object that was serialized; sk: what came back
    std::vector<Shadow> shadows;
    Bytes disk; std::vector<Record> records;
    int idx = 0;
    auto reseed = [&](int step_index, int salt) { rnd.rng.seed(mix(p.run_seed, static_cast<u64>(step_index) * 16 + static_cast<u64>(salt))); };
    for (const Step& s : p.steps) {
      ctx.begin_step(idx, s.kind);
      if (s.kind == OP_FEED || s.kind == OP_MERGE || s.kind == OP_MERGE_MOVE || s.kind == OP_RESET) {
        reseed(idx, 0); apply_history_step(f, fcfg, *orig, s);
        ctx.t(orig->obs(false));
        for (Shadow& sh : shadows) {
          if (!sh.sk->can_continue() || !sh.control->can_continue()) continue;
          reseed(idx, 1); apply_history_step(f, fcfg, *sh.control, s);
          reseed(idx, 1); apply_history_step(f, fcfg, *sh.sk, s);
          const bool det = sh.control->deterministic();
          const std::string want = sh.exact ? sh.control->obs(true) : sh.control->obs_stable(), got = sh.exact ? sh.sk->obs(true) : sh.sk->obs_stable();   // logical content / deterministic projection
          if (got != want) ctx.fail(fp("C09", *orig, sh.variant, "continue", "diverged-after-restore"), std::string(step_name(s.kind)) + ": original " + want.substr(0, 300) + " vs restored " + got.substr(0, 300));
          if (!det && sh.sk->obs(false) == sh.control->obs(false)) ctx.probe("randomised_full_obs_equal_after_continue");
          ctx.check(); ctx.probe("continue_compared");
        }
      } else if (s.kind == OP_CHECKPOINT) {
        int variant = static_cast<int>(s.a) % f->n_variants(); const unsigned h = HEADERS[static_cast<size_t>(s.b) % 6]; const bool via_stream = s.c != 0;
        if (!orig->variant_ok(variant)) { ctx.probe("variant_not_applicable"); variant = 0; }
        if (!orig->state_consistent()) { ctx.probe("checkpoint_of_object_in_recorded_inconsistent_state_skipped"); idx++; continue; }
        Bytes img = orig->ser(variant, 0);
        // the in-memory object that was serialized, taken after serialize() because serializing may itself repair lazy state (t-digest compresses)
        std::unique_ptr<Sk> control(orig->image_source(variant));
        const std::string want = control->obs(false);
        // (a) both writers agree
        { std::ostringstream os; orig->ser_os(variant, os); std::string st = os.str();
          if (st.size() != img.size() || std::memcmp(st.data(), img.data(), img.size()) != 0) ctx.fail(fp("C09", *orig, variant, "write", "stream-vs-bytes-differ"), "stream " + std::to_string(st.size()) + " bytes, vector " + std::to_string(img.size()) + " bytes"); }
        // (b) advertised sizes
        { size_t adv = orig->advertised_size(variant); if (adv != static_cast<size_t>(-1) && adv != img.size()) ctx.fail(fp("C09", *orig, variant, "write", "advertised-size-wrong"), "advertised " + std::to_string(adv) + ", image " + std::to_string(img.size()));
          size_t mx = orig->max_size(variant); if (mx != static_cast<size_t>(-1) && img.size() > mx) ctx.fail(fp("C09", *orig, variant, "write", "exceeds-max-size"), "max " + std::to_string(mx) + ", image " + std::to_string(img.size())); }
        // (c) header
        if (h) { ctx.probe("nonzero_header");
          Bytes hb; try { hb = orig->ser(variant, h); } catch (const std::exception& e) { ctx.fail(fp("C09", *orig, variant, "write", "header-serialize-throws"), std::string("h=") + std::to_string(h) + ": " + e.what()); }
          if (hb.size() != h + img.size() || std::memcmp(hb.data() + h, img.data(), img.size()) != 0) ctx.fail(fp("C09", *orig, variant, "write", "header-image-differs"), "h=" + std::to_string(h) + " size " + std::to_string(hb.size()) + " vs " + std::to_string(h + img.size())); }
        ctx.t(fnv1a(img.data(), img.size()));
        // the record goes to the log (possibly torn or lost)
        if (s.fault == F_LOST) { ctx.fault("lost_write"); }
        else {
          Record rec; rec.off = disk.size(); rec.variant = variant; rec.obs = want; rec.torn = false; rec.len = img.size();
          size_t wr = img.size();
          if (s.fault == F_TORN && img.size() > 0) { wr = static_cast<size_t>(s.fa) % img.size(); rec.torn = true; ctx.fault("torn_write"); }
          uint32_t len32 = static_cast<uint32_t>(img.size()); uint8_t hdr[8] = { 0xD5, 0x1A, static_cast<uint8_t>(variant), static_cast<uint8_t>(via_stream), 0, 0, 0, 0 }; std::memcpy(hdr + 4, &len32, 4);
          disk.insert(disk.end(), hdr, hdr + 8); rec.off = disk.size(); disk.insert(disk.end(), img.begin(), img.begin() + static_cast<std::ptrdiff_t>(wr));
          records.push_back(rec);
        }
        // read back now, with the next record (a copy of this image) following in the same stream
        Bytes two = img; two.insert(two.end(), img.begin(), img.end());
        std::unique_ptr<Sk> restored;
        if (via_stream && orig->has_stream_reader(variant)) {
          size_t chunk = 4096; if (s.fault == F_CHUNK) { chunk = CHUNKS[static_cast<size_t>(s.fa) % 5]; ctx.fault("chunk"); }
          const bool trailing = s.fault == F_TRAILING || true;   // a following record is always present; the fault kind is counted when drawn
          if (s.fault == F_TRAILING) ctx.fault("trailing");
          size_t consumed = 0;
          ReadResult r = read_stream(*orig, variant, two.data(), trailing ? two.size() : img.size(), 0, chunk, static_cast<size_t>(-1), &consumed);
          if (r.threw) ctx.fail(fp("C09", *orig, variant, "stream", "valid-image-rejected"), r.what);
          if (consumed != img.size()) ctx.fail(fp("C09", *orig, variant, "stream", "reader-consumed-wrong-length"), "consumed " + std::to_string(consumed) + " of " + std::to_string(img.size()));
          // the following record must then parse from where the reader stopped
          size_t consumed2 = 0;
          ReadResult r2 = read_stream(*orig, variant, two.data(), two.size(), consumed, chunk, static_cast<size_t>(-1), &consumed2);
          if (r2.threw) ctx.fail(fp("C09", *orig, variant, "stream", "following-record-unreadable"), r2.what);
          if (r2.sk->obs(false) != want) ctx.fail(fp("C09", *orig, variant, "stream", "following-record-differs"), "");
          restored = std::move(r.sk); ctx.probe("stream_roundtrip");
        } else {
          ReadResult r = read_bytes(*orig, variant, img.data(), img.size());
          if (r.threw) ctx.fail(fp("C09", *orig, variant, "bytes", "valid-image-rejected"), r.what);
          restored = std::move(r.sk); ctx.probe("bytes_roundtrip");
        }
        // (e) observational equality
        { const std::string got = restored->obs(false);
          if (got != want) ctx.fail(fp("C09", *orig, variant, via_stream ? "stream" : "bytes", "restored-differs"), "original " + want.substr(0, 400) + " vs restored " + got.substr(0, 400)); }
        // (f) re-serialization
        { Bytes again = restored->ser(variant, 0);
          if (again != img && restored->canonical(variant, again) == restored->canonical(variant, img)) { ctx.probe("reserialized_equal_up_to_table_order"); }
          else if (again != img) {
            size_t d = 0; while (d < again.size() && d < img.size() && again[d] == img[d]) d++;
            ctx.fail(fp("C09", *orig, variant, "reserialize", "image-differs"), "sizes " + std::to_string(img.size()) + " vs " + std::to_string(again.size()) + ", first difference at byte " + std::to_string(d));
          } }
        check_seam_errors(ctx, "C09", *orig, variant, "roundtrip");
        ctx.check(); ctx.nontrivial = true;
        ctx.probe((std::string("rt_") + orig->fam() + "_v" + std::to_string(variant)).c_str());
        if (shadows.size() < 3 && restored->can_continue()) { const bool exact = orig->continue_is_exact(variant); if (!exact) ctx.probe("continue_compared_on_stable_projection"); shadows.push_back(Shadow{std::move(control), std::move(restored), variant, exact}); }
      } else if (s.kind == OP_CRASH) {
        ctx.fault("crash");
        // every live object dies; only the log survives
        shadows.clear(); std::unique_ptr<Sk> proto(f->make(fcfg)); orig.reset();
        std::unique_ptr<Sk> last; int last_variant = 0;
        for (size_t ri = 0; ri < records.size(); ri++) {
          const Record& rec = records[ri];
          const size_t avail = (ri + 1 < records.size() ? records[ri + 1].off - 8 : disk.size()) - rec.off;
          if (avail < rec.len) { ctx.probe("recovery_skipped_torn_record"); continue; }   // harness header says the record is incomplete
          if (!proto->has_stream_reader(rec.variant)) {
            ReadResult r = read_bytes(*proto, rec.variant, disk.data() + rec.off, rec.len);
            if (r.threw) ctx.fail(fp("C09", *proto, rec.variant, "recovery", "durable-record-rejected"), r.what);
            if (r.sk->obs(false) != rec.obs) ctx.fail(fp("C09", *proto, rec.variant, "recovery", "durable-record-differs"), "");
            last = std::move(r.sk); last_variant = rec.variant;
          } else {
            size_t consumed = 0;
            ReadResult r = read_stream(*proto, rec.variant, disk.data(), disk.size(), rec.off, 64, static_cast<size_t>(-1), &consumed);
            if (r.threw) ctx.fail(fp("C09", *proto, rec.variant, "recovery", "durable-record-rejected"), r.what);
            if (consumed != rec.len) ctx.fail(fp("C09", *proto, rec.variant, "recovery", "reader-consumed-wrong-length"), "consumed " + std::to_string(consumed) + " of " + std::to_string(rec.len));
            if (r.sk->obs(false) != rec.obs) ctx.fail(fp("C09", *proto, rec.variant, "recovery", "durable-record-differs"), "");
            last = std::move(r.sk); last_variant = rec.variant;
          }
          ctx.probe("recovered_record"); ctx.check();
        }
        (void)last_variant;
        if (last && last->can_continue()) orig = std::move(last); else orig.reset(f->make(fcfg));
      }
      idx++;
    }
    shadows.clear(); orig.reset();
    check_seam_errors(ctx, "C09", *std::unique_ptr<Sk>(f->make(fcfg)), 0, "end");
  }
};

struct Init { Init() { register_families(); static C11World c11; static C09World c09; registry().push_back(&c11); registry().push_back(&c09); } } init_;

} // namespace

int main(int argc, char** argv) { sim::selftest_hashes(); return sim::sim_main(argc, argv); }
