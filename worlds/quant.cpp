// worlds `addagg`/`coin` for the comparison-based quantile sketches: C07 (conservation, extremes, coherent answers under merge trees,
// interleaved readers and adversarial coins) and C08 (unbiasedness over the internal coin flips, decided by owning the coin).
#include "../sim/driver.hpp"
#include "../sim/seams.hpp"
#include "../sim/fam_common.hpp"
#include <kll_sketch.hpp>
#include <req_sketch.hpp>
#include <quantiles_sketch.hpp>
#include <cmath>
#include <array>

using namespace sim;
namespace ds = datasketches;
using fam::Item;

namespace {

static const int KLL_KS[] = { 8, 8, 9, 12, 20, 33, 64, 200 };
static const int REQ_KS[] = { 4, 4, 6, 8, 12, 20, 50 };
static const int CLS_KS[] = { 2, 4, 4, 8, 16, 32, 128 };

template<typename T> struct KllKind { typedef ds::kll_sketch<T, typename Item<T>::less, talloc<T>> S; static const char* name() { return "kll"; }
  static S make(int ki, int) { return S(static_cast<uint16_t>(KLL_KS[ki % 8]), typename Item<T>::less(), talloc<T>(1)); } static bool mergeable(const S&, const S&) { return true; } };
template<typename T> struct ReqKind { typedef ds::req_sketch<T, typename Item<T>::less, talloc<T>> S; static const char* name() { return "req"; }
  static S make(int ki, int hra) { return S(static_cast<uint16_t>(REQ_KS[ki % 7]), hra != 0, typename Item<T>::less(), talloc<T>(1)); } static bool mergeable(const S& a, const S& b) { return a.is_HRA() == b.is_HRA(); } };
template<typename T> struct ClsKind { typedef ds::quantiles_sketch<T, typename Item<T>::less, talloc<T>> S; static const char* name() { return "quantiles"; }
  static S make(int ki, int) { return S(static_cast<uint16_t>(CLS_KS[ki % 7]), typename Item<T>::less(), talloc<T>(1)); }
  static bool mergeable(const S& a, const S& b) { return b.get_k() % a.get_k() == 0 || a.get_k() % b.get_k() == 0 ? (b.get_k() >= a.get_k() ? b.get_k() % a.get_k() == 0 : true) : false; } };

bool is_pow2(u64 w) { return w != 0 && (w & (w - 1)) == 0; }

enum { Q_BATCH = 1, Q_NAN = 2, Q_MERGE = 3, Q_NEW = 4, Q_READ = 5, Q_COPY = 6, Q_SERDE = 7, Q_INVALID = 8, Q_ITER = 9, Q_FILL = 10, Q_EDGE_MERGE = 11 };

// ------------------------------------------------------------------ C07 executor, generic over sketch kind and item type
template<typename Kind, typename T> struct C07Exec {
  typedef typename Kind::S S; typedef typename Item<T>::less Less;
  struct Node { std::unique_ptr<S> sk; std::vector<i64> model; };
  Ctx& ctx; const Plan& p; std::string fam;
  C07Exec(Ctx& c, const Plan& pl): ctx(c), p(pl) { fam = std::string(Kind::name()) + "<" + type_name() + ">"; }
  static const char* type_name() { return std::is_same<T, float>::value ? "float" : std::is_same<T, std::string>::value ? "string" : std::is_same<T, int64_t>::value ? "i64" : "titem"; }
  std::string fp(const char* cls) const { return "C07|" + fam + "|" + cls; }
  static std::string str(const T& t) { return Item<T>::str(t); }

  std::vector<T> sorted_model(const Node& n) const { std::vector<T> v; v.reserve(n.model.size()); for (i64 x : n.model) v.push_back(Item<T>::make(x)); std::sort(v.begin(), v.end(), Less()); return v; }

  // observations that never build the cached sorted view
  void check_basic(Node& n, const char* after) {
    const S& s = *n.sk; const std::string w = std::string(" after ") + after;
    ctx.require(s.get_n() == n.model.size(), fp("n-differs").c_str(), "n=" + std::to_string(s.get_n()) + " accepted=" + std::to_string(n.model.size()) + w);
    ctx.require(s.is_empty() == n.model.empty(), fp("emptiness").c_str(), w);
    u64 wsum = 0; u64 cnt = 0; Less less;
    if (!n.model.empty()) {
      i64 mn = n.model[0], mx = n.model[0]; T tmn = Item<T>::make(mn), tmx = Item<T>::make(mx);
      for (i64 x : n.model) { T t = Item<T>::make(x); if (less(t, tmn)) tmn = t; if (less(tmx, t)) tmx = t; }
      const T gmin = s.get_min_item(), gmax = s.get_max_item();
      ctx.require(!less(gmin, tmn) && !less(tmn, gmin), fp("min-item").c_str(), "min=" + str(gmin) + " true " + str(tmn) + w);
      ctx.require(!less(gmax, tmx) && !less(tmx, gmax), fp("max-item").c_str(), "max=" + str(gmax) + " true " + str(tmx) + w);
    }
    std::set<i64> members(n.model.begin(), n.model.end());
    std::set<std::string> member_str; for (i64 x : members) member_str.insert(str(Item<T>::make(x)));
    // iterating must terminate: an iterator that never reaches end() is stopped after more entries than can exist
    const u64 limit = static_cast<u64>(s.get_num_retained()) + 8;
    for (auto it = s.begin(); it != s.end(); ++it) {
      if (++cnt > limit) ctx.fail(fp("iterator-runs-past-end"), "more than num_retained+8=" + std::to_string(limit) + " entries" + w);
      const u64 wt = (*it).second; wsum += wt;
      ctx.require(is_pow2(wt), fp("weight-not-power-of-two").c_str(), std::to_string(wt) + w);
      ctx.require(member_str.count(str((*it).first)) != 0, fp("retained-item-not-from-input").c_str(), str((*it).first) + w);
    }
    ctx.require(cnt == s.get_num_retained(), fp("iteration-count-vs-num-retained").c_str(), std::to_string(cnt) + " vs " + std::to_string(s.get_num_retained()) + w);
    ctx.require(wsum == s.get_n(), fp("weights-do-not-sum-to-n").c_str(), "sum=" + std::to_string(wsum) + " n=" + std::to_string(s.get_n()) + " retained=" + std::to_string(cnt) + w);
    ctx.require(s.get_num_retained() <= s.get_n(), fp("retained-above-n").c_str(), w);
    space_bound(s, w);
    if (n.model.empty()) ctx.probe("empty_sketch_iterated");
  }
  void space_bound(const ds::quantiles_sketch<T, Less, talloc<T>>& s, const std::string& w) {
    const u64 k = s.get_k(), n = s.get_n(); const u64 want = (n % (2 * k)) + k * static_cast<u64>(__builtin_popcountll(n / (2 * k)));
    ctx.require(s.get_num_retained() == want, fp("retained-count-formula").c_str(), "retained=" + std::to_string(s.get_num_retained()) + " formula " + std::to_string(want) + " k=" + std::to_string(k) + " n=" + std::to_string(n) + w);
  }
  template<typename TT = T, typename std::enable_if<std::is_arithmetic<TT>::value, int>::type = 0>
  void space_bound(const ds::kll_sketch<T, Less, talloc<T>>& s, const std::string& w) {
    const size_t mx = S::get_max_serialized_size_bytes(s.get_k(), s.get_n());
    ctx.require(static_cast<size_t>(s.get_num_retained()) * sizeof(T) <= mx, fp("retained-above-published-bound").c_str(), "retained=" + std::to_string(s.get_num_retained()) + " max bytes " + std::to_string(mx) + w);
  }
  template<typename TT = T, typename std::enable_if<!std::is_arithmetic<TT>::value, int>::type = 0>
  void space_bound(const ds::kll_sketch<T, Less, talloc<T>>&, const std::string&) {}
  // REQ publishes no closed form; O(k log^1.5(n/k)) with a constant calibrated on the pinned tree: over k in {4..50}, both modes, sorted /
  // reversed / random streams up to 2*10^6 items and repeated merges the ratio retained / (k (log2(n/k)+2)^1.5) never exceeded 2.46; 8 is demanded
  void space_bound(const ds::req_sketch<T, Less, talloc<T>>& s, const std::string& w) {
    const double n = static_cast<double>(s.get_n()), k = s.get_k(); if (n <= 0) return;
    const double bound = 8.0 * k * std::pow(std::log2(std::max(1.0, n / k)) + 2.0, 1.5);
    ctx.require(static_cast<double>(s.get_num_retained()) <= bound, fp("retained-above-space-bound").c_str(), "retained=" + std::to_string(s.get_num_retained()) + " n=" + std::to_string(s.get_n()) + " k=" + std::to_string(s.get_k()) + " bound " + std::to_string(bound) + w);
  }

  // reader step: everything that goes through the (cached) sorted view
  void check_read(Node& n, i64 salt, const char* after) {
    const S& s = *n.sk; const std::string w = std::string(" after ") + after; Less less;
    if (n.model.empty()) {
      bool t1 = false, t2 = false, t3 = false;
      try { s.get_quantile(0.5); } catch (const std::exception&) { t1 = true; }
      try { s.get_rank(Item<T>::make(1)); } catch (const std::exception&) { t2 = true; }
      try { s.get_min_item(); } catch (const std::exception&) { t3 = true; }
      ctx.require(t1 && t2 && t3, fp("empty-sketch-query-not-rejected").c_str(), std::to_string(t1) + std::to_string(t2) + std::to_string(t3) + w);
      ctx.fault("refused_op"); return;
    }
    auto view = s.get_sorted_view();
    u64 prev_cum = 0; bool first = true; T prev_item = Item<T>::make(0); u64 vsize = 0;
    for (auto it = view.begin(); it != view.end(); ++it) {
      const u64 cum = it.get_cumulative_weight(true);
      ctx.require(cum >= prev_cum && it.get_weight() > 0, fp("sorted-view-cumulative-weight-not-increasing").c_str(), w);
      if (!first) ctx.require(!less((*it).first, prev_item), fp("sorted-view-not-ordered").c_str(), str((*it).first) + " after " + str(prev_item) + w);
      prev_item = (*it).first; prev_cum = cum; first = false; vsize++;
    }
    ctx.require(prev_cum == s.get_n(), fp("sorted-view-total-weight").c_str(), std::to_string(prev_cum) + " vs n=" + std::to_string(s.get_n()) + w);
    std::vector<T> sm = sorted_model(n);
    // query points: a spread of model items
    std::vector<T> pts; const size_t step = std::max<size_t>(1, sm.size() / 12);
    for (size_t i = static_cast<size_t>(salt) % step; i < sm.size(); i += step) if (pts.empty() || less(pts.back(), sm[i])) pts.push_back(sm[i]);
    double prev_ri = -1, prev_re = -1;
    for (const T& v : pts) {
      const double ri = s.get_rank(v, true), re = s.get_rank(v, false);
      ctx.require(ri >= 0 && ri <= 1 && re >= 0 && re <= 1, fp("rank-out-of-range").c_str(), hexd(ri) + w);
      ctx.require(ri >= re, fp("inclusive-rank-below-exclusive").c_str(), str(v) + ": " + hexd(ri) + " < " + hexd(re) + w);
      ctx.require(ri >= prev_ri && re >= prev_re, fp("rank-not-monotone").c_str(), str(v) + w);
      prev_ri = ri; prev_re = re;
      if (!s.is_estimation_mode()) {
        const double n_ = static_cast<double>(sm.size());
        const double le = static_cast<double>(std::upper_bound(sm.begin(), sm.end(), v, less) - sm.begin()), lt = static_cast<double>(std::lower_bound(sm.begin(), sm.end(), v, less) - sm.begin());
        ctx.require(std::fabs(ri - le / n_) <= 1e-12 && std::fabs(re - lt / n_) <= 1e-12, fp("exact-mode-rank-wrong").c_str(), str(v) + ": " + hexd(ri) + "/" + hexd(re) + " true " + hexd(le / n_) + "/" + hexd(lt / n_) + w);
      }
    }
    // quantiles monotone in the rank; exact order statistics while exact
    static const double RS[] = { 0.0, 0.01, 0.1, 0.25, 0.5, 0.75, 0.9, 0.99, 1.0 };
    for (int incl = 0; incl < 2; incl++) {
      bool have = false; T prevq = Item<T>::make(0);
      for (double r : RS) { T q = s.get_quantile(r, incl != 0); if (have) ctx.require(!less(q, prevq), fp("quantile-not-monotone").c_str(), "rank " + hexd(r) + w); prevq = q; have = true;
        ctx.require(!less(q, s.get_min_item()) && !less(s.get_max_item(), q), fp("quantile-outside-min-max").c_str(), str(q) + w); }
    }
    if (!s.is_estimation_mode()) {
      const size_t nn = sm.size();
      for (size_t j = static_cast<size_t>(salt) % std::max<size_t>(1, nn / 7 + 1); j < nn; j += std::max<size_t>(1, nn / 7)) {
        const double r = (static_cast<double>(j) + 0.5) / static_cast<double>(nn);
        T q = s.get_quantile(r, true);
        ctx.require(!less(q, sm[j]) && !less(sm[j], q), fp("exact-mode-quantile-wrong").c_str(), "rank " + hexd(r) + " gave " + str(q) + " true " + str(sm[j]) + w);
      }
      T q0 = s.get_quantile(0.0), q1 = s.get_quantile(1.0);
      ctx.require(!less(q0, sm.front()) && !less(sm.front(), q0) && !less(q1, sm.back()) && !less(sm.back(), q1), fp("exact-mode-extreme-quantiles").c_str(), w);
      ctx.probe("exact_mode_checked");
    } else ctx.probe("estimation_mode_checked");
    // CDF / PMF
    if (pts.size() >= 2) {
      for (int incl = 0; incl < 2; incl++) {
        auto cdf = s.get_CDF(pts.data(), static_cast<uint32_t>(pts.size()), incl != 0); auto pmf = s.get_PMF(pts.data(), static_cast<uint32_t>(pts.size()), incl != 0);
        ctx.require(cdf.size() == pts.size() + 1 && pmf.size() == pts.size() + 1 && cdf.back() == 1.0, fp("cdf-shape").c_str(), w);
        double sum = 0;
        for (size_t i = 0; i < pts.size(); i++) ctx.require(cdf[i] == s.get_rank(pts[i], incl != 0), fp("cdf-differs-from-rank").c_str(), w);
        for (size_t i = 0; i < pmf.size(); i++) { sum += pmf[i]; ctx.require(std::fabs(pmf[i] - (cdf[i] - (i ? cdf[i - 1] : 0.0))) <= 1e-12, fp("pmf-differs-from-cdf-differences").c_str(), w); }
        ctx.require(std::fabs(sum - 1.0) <= 1e-12, fp("pmf-does-not-sum-to-one").c_str(), hexd(sum) + w);
      }
    }
  }

  void check_invalid(Node& n) {
    const S& s = *n.sk; if (n.model.empty()) return;
    bool t1 = false, t2 = false, t3 = false;
    try { s.get_quantile(1.5); } catch (const std::invalid_argument&) { t1 = true; }
    try { s.get_quantile(-0.1); } catch (const std::invalid_argument&) { t2 = true; }
    T pts[2] = { Item<T>::make(5), Item<T>::make(5) };
    try { s.get_CDF(pts, 2); } catch (const std::invalid_argument&) { t3 = true; }
    ctx.require(t1 && t2 && t3, fp("invalid-query-not-rejected").c_str(), std::to_string(t1) + std::to_string(t2) + std::to_string(t3));
    nan_queries(s);
    ctx.fault("refused_op");
  }
  template<typename SS, typename TT = T, typename std::enable_if<std::is_floating_point<TT>::value, int>::type = 0> void nan_queries(const SS& s) {
    bool t = false; T pts[2] = { static_cast<T>(1), std::numeric_limits<T>::quiet_NaN() };
    try { s.get_PMF(pts, 2); } catch (const std::invalid_argument&) { t = true; }
    ctx.require(t, fp("nan-split-point-not-rejected").c_str(), "");
  }
  template<typename SS, typename TT = T, typename std::enable_if<!std::is_floating_point<TT>::value, int>::type = 0> void nan_queries(const SS&) {}
  template<typename TT = T, typename std::enable_if<std::is_floating_point<TT>::value, int>::type = 0> void nan_update(S& s) { s.update(std::numeric_limits<T>::quiet_NaN()); ctx.probe("nan_offered"); }
  template<typename TT = T, typename std::enable_if<!std::is_floating_point<TT>::value, int>::type = 0> void nan_update(S&) {}

  void run() {
    const int hra = static_cast<int>(p.cfg[3] & 1);
    SimRandom rnd(p.run_seed); rnd.bit_mode = static_cast<int>(p.cfg[4]) & 3; RandomScope rs(rnd);
    if (rnd.bit_mode != SimRandom::SEEDED) ctx.fault("coin_adversary");
    std::vector<Node> nodes(4);
    for (size_t i = 0; i < nodes.size(); i++) nodes[i].sk.reset(new S(Kind::make(static_cast<int>(p.cfg[2]) + (i >= 2 ? static_cast<int>(i) : 0), hra)));   // two pairs of equal k, the pairs differ
    int idx = 0;
    for (const Step& s : p.steps) {
      ctx.begin_step(idx++, s.kind);
      Node& n = nodes[static_cast<size_t>(s.a) % nodes.size()];
      if (!n.sk && s.kind != Q_NEW) { Node& z = nodes[0]; (void)z; continue; }
      switch (s.kind) {
        case Q_NEW: n.sk.reset(new S(Kind::make(static_cast<int>(s.b), hra))); n.model.clear(); break;
        case Q_BATCH: { i64 count = s.c >> 3; const i64 pat = s.c & 7;
          // counts above 100000 are relative to the sketch's k (capacity boundaries: k, 2k, 3k, 6k and their neighbours), decided at execution time
          if (count >= 100000) { static const int mult[] = { 1, 2, 3, 6 }; const i64 code = count - 100000; count = static_cast<i64>(n.sk->get_k()) * mult[(code / 3) % 4] + (code % 3) - 1; if (count < 0) count = 0; ctx.probe("k_relative_batch"); } for (i64 j = 0; j < count; j++) { i64 v = fam::feed_value(s.b, j, count, pat); n.sk->update(Item<T>::make(v)); n.model.push_back(v); } break; }
        case Q_NAN: nan_update(*n.sk); break;
        case Q_FILL: {   // bring n up to a capacity boundary of this sketch (multiples of k and their neighbours): boundary-value placement of later merges
          static const int mult[] = { 3, 3, 6, 1, 2 }; static const int off[] = { 0, 0, -1, 1 };
          const i64 target = static_cast<i64>(n.sk->get_k()) * mult[static_cast<size_t>(s.b) % 5] + off[static_cast<size_t>(s.b / 5) % 4];
          for (i64 j = static_cast<i64>(n.model.size()); j < target; j++) { i64 v = fam::feed_value(s.c, j, target, 2); n.sk->update(Item<T>::make(v)); n.model.push_back(v); }
          ctx.probe("fill_to_capacity_boundary"); break; }
        case Q_EDGE_MERGE: {   // two fresh sketches of equal k whose item counts add up to a capacity boundary (or one off it), merged, then a long tail of updates
          Node& src = nodes[(static_cast<size_t>(s.a) % nodes.size()) ^ 1]; if (!src.sk) break;
          const int ki = static_cast<int>(s.c >> 8); n.sk.reset(new S(Kind::make(ki, hra))); n.model.clear(); src.sk.reset(new S(Kind::make(ki, hra))); src.model.clear();
          static const int mult[] = { 6, 6, 1, 2, 3, 12 }; static const int off[] = { 0, 0, 0, -1, 1 };
          const i64 k = n.sk->get_k(), total = std::max<i64>(2, k * mult[static_cast<size_t>(s.b) % 6] + off[static_cast<size_t>(s.b / 6) % 5]), first = 1 + (s.c & 255) % (total - 1);
          for (i64 j = 0; j < first; j++) { i64 v = fam::feed_value(s.b, j, total, 2); n.sk->update(Item<T>::make(v)); n.model.push_back(v); }
          for (i64 j = first; j < total; j++) { i64 v = fam::feed_value(s.b, j, total, 2); src.sk->update(Item<T>::make(v)); src.model.push_back(v); }
          n.sk->merge(*src.sk); n.model.insert(n.model.end(), src.model.begin(), src.model.end());
          check_basic(n, "merge landing on a capacity boundary");
          const i64 tail = k * 400;
          for (i64 j = 0; j < tail; j++) { i64 v = fam::feed_value(s.b + 1, j, tail, 2); n.sk->update(Item<T>::make(v)); n.model.push_back(v); }
          ctx.probe("edge_merge_then_tail"); ctx.nontrivial = true; break; }
        case Q_MERGE: {
          Node& src = nodes[static_cast<size_t>(s.b) % nodes.size()];
          if (!src.sk || &src == &n || !Kind::mergeable(*n.sk, *src.sk)) break;
          if (src.model.empty()) ctx.probe("merge_empty_operand"); if (!src.sk->is_estimation_mode()) ctx.probe("merge_exact_operand"); else ctx.probe("merge_estimating_operand");
          if (src.sk->get_k() != n.sk->get_k()) ctx.probe("merge_unequal_k");
          if (s.c & 1) { n.sk->merge(std::move(*src.sk)); n.model.insert(n.model.end(), src.model.begin(), src.model.end()); src.sk.reset(new S(Kind::make(static_cast<int>(s.c >> 1), hra))); src.model.clear(); }
          else { n.sk->merge(*src.sk); n.model.insert(n.model.end(), src.model.begin(), src.model.end()); check_basic(src, "being merge source"); }
          ctx.nontrivial = true; break;
        }
        case Q_COPY: { Node& d = nodes[static_cast<size_t>(s.b) % nodes.size()]; if (&d == &n) { *n.sk = *n.sk; } else { if (d.sk && (s.c & 1)) { *d.sk = *n.sk; ctx.probe("copy_assign"); } else d.sk.reset(new S(*n.sk)); d.model = n.model; check_read(d, s.b, "copy"); } break; }   // copy assignment onto a live sketch (whatever it cached or flagged), or copy construction; the copy is read at once
        case Q_SERDE: { auto b = n.sk->serialize(0, typename Item<T>::serde()); n.sk.reset(new S(S::deserialize(b.data(), b.size(), typename Item<T>::serde(), Less(), talloc<T>(1)))); ctx.fault("checkpoint_restore"); break; }
        case Q_READ: check_read(n, s.b, "read"); ctx.fault("interleaved_read"); break;
        case Q_INVALID: check_invalid(n); break;
        default: break;
      }
      for (Node& x : nodes) if (x.sk) check_basic(x, step_name(s.kind));
      ctx.t(static_cast<u64>(n.sk ? n.sk->get_n() : 0)); ctx.t(static_cast<u64>(n.sk ? n.sk->get_num_retained() : 0));
    }
    ctx.probe("coin_bits_drawn", rnd.bits_drawn);
  }
  static const char* step_name(int k) { static const char* nm[] = { "?", "batch", "nan", "merge", "new", "read", "copy", "serde", "invalid_query", "iterate", "fill_to_boundary", "edge_merge_then_tail" }; return (k >= 1 && k <= 11) ? nm[k] : "step"; }
};

struct C07World: World {
  const char* name() const override { return "c07"; }
  const char* step_name(int k) const override { return C07Exec<KllKind<float>, float>::step_name(k); }
  std::string family_of(const Plan& p) const override { static const char* kn[] = { "kll", "req", "quantiles" }; static const char* tn[] = { "float", "string", "titem" }; return p.cfg.size() < 2 ? "?" : std::string(kn[p.cfg[0] % 3]) + "<" + tn[p.cfg[1] % 3] + ">"; }
  Plan generate(u64 run_seed, int tier) override {
    Plan p; p.run_seed = run_seed; Rng rc(run_seed, "cfg"), rp(run_seed, "plan");
    const i64 coin = rc.chance(1, 5) ? 1 + static_cast<i64>(rc.below(3)) : 0;
    p.cfg = { static_cast<i64>(rc.below(3)), static_cast<i64>(rc.below(3)), static_cast<i64>(rc.below(8)), static_cast<i64>(rc.below(2)), coin };
    int n = static_cast<int>(rp.range(3, tier ? 40 : 18));
    for (int i = 0; i < n; i++) {
      Step s; unsigned roll = static_cast<unsigned>(rp.below(100)); s.a = static_cast<i64>(rp.below(4));
      if (roll < 38) { s.kind = Q_BATCH; s.b = static_cast<i64>(rp.below(2000)); static const i64 cnt[] = { 0, 1, 2, 3, 7, 8, 9, 16, 17, 40, 100, 130, 400, 1000, 3000 }; i64 c = rp.pick(cnt); if (!tier && c > 1000) c = 1000; if (rp.chance(1, 4)) c = 100000 + static_cast<i64>(rp.below(12)); s.c = c * 8 + static_cast<i64>(rp.below(8)); }
      else if (roll < 41) { if (rp.chance(1, 3)) s.kind = Q_NAN; else if (rp.chance(1, 3)) { s.kind = Q_EDGE_MERGE; s.b = static_cast<i64>(rp.below(30)); s.c = static_cast<i64>(rp.below(256)) + 256 * static_cast<i64>(rp.below(tier ? 5 : 3)); } else { s.kind = Q_FILL; s.b = static_cast<i64>(rp.below(20)); s.c = static_cast<i64>(rp.below(2000)); } }
      else if (roll < 58) { s.kind = Q_MERGE; s.b = static_cast<i64>(rp.below(4)); s.c = static_cast<i64>(rp.below(16)); }
      else if (roll < 66) { s.kind = Q_NEW; s.b = static_cast<i64>(rp.below(8)); }
      else if (roll < 84) { s.kind = Q_READ; s.b = static_cast<i64>(rp.below(1000)); }
      else if (roll < 89) { s.kind = Q_COPY; s.b = static_cast<i64>(rp.below(4)); s.c = static_cast<i64>(rp.below(2)); }
      else if (roll < 94) s.kind = Q_SERDE;
      else s.kind = Q_INVALID;
      p.steps.push_back(s);
    }
    return p;
  }
  template<template<typename> class K> void by_type(const Plan& p, Ctx& ctx) {
    switch (p.cfg[1] % 3) { case 0: C07Exec<K<float>, float>(ctx, p).run(); break; case 1: C07Exec<K<std::string>, std::string>(ctx, p).run(); break; default: C07Exec<K<titem>, titem>(ctx, p).run(); break; }
  }
  void execute(const Plan& p, Ctx& ctx) override {
    alloc_state().reset_counters(); alloc_state().budget = static_cast<size_t>(1) << 31; item_state().errors.clear();
    switch (p.cfg[0] % 3) { case 0: by_type<KllKind>(p, ctx); break; case 1: by_type<ReqKind>(p, ctx); break; default: by_type<ClsKind>(p, ctx); break; }
    if (!alloc_state().errors.empty()) ctx.fail("C07|allocator-misuse", alloc_state().errors[0]);
  }
};

// ================================================================== C08: the coin belongs to the simulator
// R(v) = sum of weights of retained items <= v, in exact integer arithmetic
template<typename S> std::map<i64, u64> weight_by_item(const S& s) { std::map<i64, u64> m; for (auto it = s.begin(); it != s.end(); ++it) m[static_cast<i64>((*it).first)] += (*it).second; return m; }
u64 rank_count(const std::map<i64, u64>& m, i64 v) { u64 r = 0; for (auto& kv : m) { if (kv.first > v) break; r += kv.second; } return r; }

enum { K_UPD = 1, K_MERGE = 2, K_NEW = 3, K_QUERY = 4 };   // K_QUERY: a read-only query (builds / caches whatever a reader caches) between mutations

template<typename Kind> struct C08Exec {
  typedef typename Kind::S S;
  Ctx& ctx; const Plan& p; std::string fam;
  C08Exec(Ctx& c, const Plan& pl): ctx(c), p(pl) { fam = Kind::name(); }
  std::string fp(const char* cls) const { return "C08|" + fam + "|" + cls; }

  // enumerates the draw tree of `op` applied to copies of the given pre-state; returns leaves (depth, weight map)
  // A 64-bit draw (the stride offset of the classic down-sampling merge) is enumerated as well: the 2^64 values are cut into `cells` equal
  // intervals (cells = the ratio of the two k, a power of two) and one value from each is scripted. A uniform choice among a power-of-two number
  // of offsets takes the top bits of the draw (checked once against this standard library, see stride_map_ok), so it is constant on every cell
  // and the enumeration is exact; whatever the operation does with the draw, each cell has probability 1/cells.
  struct Leaf { std::vector<uint8_t> bits; size_t draws = 0; std::map<i64, u64> w; u64 n; };
  static bool stride_map_ok() {
    static int ok = -1; if (ok >= 0) return ok != 0;
    struct Fixed { typedef uint64_t result_type; u64 v; static constexpr u64 min() { return 0; } static constexpr u64 max() { return UINT64_MAX; } u64 operator()() { return v; } };
    ok = 1;
    for (uint32_t cells : { 2u, 4u, 8u, 16u, 64u }) for (uint32_t j = 0; j < cells; j++) { const u64 w = (UINT64_MAX / cells) + 1, lo = w * j;
      for (u64 v : { lo, lo + w / 2, lo + w - 1 }) { Fixed f{ v }; std::uniform_int_distribution<uint32_t> d(0, cells - 1); if (d(f) != j) ok = 0; } }
    return ok != 0;
  }
  template<typename Op> void explore(const std::vector<uint8_t>& prefix, const std::vector<u64>& draws, u64 cells, Op& op, std::vector<Leaf>& leaves, int& executions, int limit) {
    if (executions >= limit) return;
    SimRandom r(1); r.bit_script = prefix; r.bit_mode = SimRandom::ALL0; r.u64_script = draws; r.install();
    executions++;
    std::unique_ptr<S> res(op());
    SimRandom::uninstall();
    if (r.u64_drawn > draws.size()) {
      if (cells < 2 || !stride_map_ok()) { leaves.clear(); executions = limit; ctx.probe("operation_draws_u64"); return; }
      const u64 width = (UINT64_MAX / cells) + 1;
      for (u64 j = 0; j < cells; j++) { std::vector<u64> d = draws; d.push_back(width * j + width / 2); explore(prefix, d, cells, op, leaves, executions, limit); }
      return;
    }
    if (r.bits_drawn <= prefix.size()) { Leaf l; l.bits = prefix; l.bits.resize(r.bits_drawn); l.draws = r.u64_drawn; l.w = weight_by_item(*res); l.n = res->get_n(); leaves.push_back(std::move(l)); return; }
    std::vector<uint8_t> p0 = prefix, p1 = prefix; p0.push_back(0); p1.push_back(1);
    explore(p0, draws, cells, op, leaves, executions, limit); explore(p1, draws, cells, op, leaves, executions, limit);
  }

  // oracle 1 + 2 for one operation: expected R after = R before (all operands) + new items; all leaves at the same depth
  template<typename Op> void check_operation(Op& op, const std::map<i64, u64>& before, u64 n_after, const char* what, u64 cells = 0) {
    std::vector<Leaf> leaves; int execs = 0; explore(std::vector<uint8_t>(), std::vector<u64>(), cells, op, leaves, execs, 5000);
    if (execs >= 5000 || leaves.empty()) { ctx.probe("draw_tree_too_large"); return; }
    size_t depth = leaves[0].bits.size(); const size_t ndraws = leaves[0].draws;
    for (const Leaf& l : leaves) ctx.require(l.bits.size() == depth && l.draws == ndraws, fp("number-of-coin-flips-depends-on-outcome").c_str(), std::string(what) + ": " + std::to_string(depth) + "+" + std::to_string(ndraws) + " vs " + std::to_string(l.bits.size()) + "+" + std::to_string(l.draws));
    size_t expect_leaves = static_cast<size_t>(1) << depth; for (size_t i = 0; i < ndraws; i++) expect_leaves *= static_cast<size_t>(cells);
    ctx.require(leaves.size() == expect_leaves, fp("draw-tree-not-complete").c_str(), what);
    if (ndraws) { ctx.probe("stride_offsets_enumerated"); ctx.nontrivial = true; }
    if (depth >= 1) { ctx.probe("operations_with_coin_flips"); ctx.nontrivial = true; } if (depth >= 2) ctx.probe("coin_fork_depth_ge2");
    std::set<i64> pts; for (auto& kv : before) pts.insert(kv.first); for (const Leaf& l : leaves) for (auto& kv : l.w) pts.insert(kv.first);
    for (const Leaf& l : leaves) ctx.require(l.n == n_after, fp("n-differs-between-coin-outcomes").c_str(), what);
    for (i64 v : pts) {
      unsigned __int128 sum = 0; for (const Leaf& l : leaves) sum += rank_count(l.w, v);
      const unsigned __int128 want = static_cast<unsigned __int128>(rank_count(before, v)) * leaves.size();
      if (sum != want) ctx.fail(fp("rank-biased-over-coin-flips"), std::string(what) + ": at v=" + std::to_string(v) + " mean rank count " + std::to_string(static_cast<double>(sum) / static_cast<double>(leaves.size())) + " expected " + std::to_string(rank_count(before, v)) + " over " + std::to_string(leaves.size()) + " outcomes");
    }
    ctx.check();
  }

  // the published error of a merged sketch is the one of the smallest k that went into it (kll); classic quantiles lower their k themselves
  void published_error(const ds::kll_sketch<float, std::less<float>, talloc<float>>& s, uint16_t mk) {
    typedef ds::kll_sketch<float, std::less<float>, talloc<float>> KS;
    for (int pmf = 0; pmf < 2; pmf++) ctx.require(s.get_normalized_rank_error(pmf != 0) == KS::get_normalized_rank_error(mk, pmf != 0), fp("published-error-not-that-of-smallest-k-merged").c_str(),
      "publishes " + hexd(s.get_normalized_rank_error(pmf != 0)) + ", smallest k merged in is " + std::to_string(mk) + " -> " + hexd(KS::get_normalized_rank_error(mk, pmf != 0)));
    ctx.probe("published_error_checked");
  }
  void published_error(const ds::quantiles_sketch<float, std::less<float>, talloc<float>>& s, uint16_t mk) {
    typedef ds::quantiles_sketch<float, std::less<float>, talloc<float>> QS;
    ctx.require(s.get_normalized_rank_error(false) == QS::get_normalized_rank_error(s.get_k(), false) && s.get_k() <= std::max<uint16_t>(mk, s.get_k()), fp("published-error-inconsistent-with-k").c_str(), "");
  }
  void published_error(const ds::req_sketch<float, std::less<float>, talloc<float>>&, uint16_t) {}
  void run_martingale() {
    const int hra = static_cast<int>(p.cfg[2] & 1);
    std::vector<std::unique_ptr<S>> sk(3);
    SimRandom main_rnd(p.run_seed);
    for (size_t i = 0; i < sk.size(); i++) sk[i].reset(new S(Kind::make(static_cast<int>(p.cfg[1]) + (std::is_same<Kind, KllKind<float>>::value ? static_cast<int>(2 * i) : std::is_same<Kind, ClsKind<float>>::value ? static_cast<int>(i) : 0), hra)));   // kll and classic: different k from the start, so that merge trees mix k (classic: down-sampling merges)
    std::vector<uint16_t> min_k; for (auto& x : sk) min_k.push_back(x->get_k());   // the smallest k among everything compacted that was merged into each sketch
    int idx = 0;
    for (const Step& s : p.steps) {
      ctx.begin_step(idx++, s.kind);
      std::unique_ptr<S>& cur = sk[static_cast<size_t>(s.a) % 3];
      if (s.kind == K_NEW) { cur.reset(new S(Kind::make(static_cast<int>(s.b), hra))); min_k[static_cast<size_t>(s.a) % 3] = cur->get_k(); continue; }
      if (!cur) continue;
      if (s.kind == K_QUERY) { if (!cur->is_empty()) { (void)cur->get_rank(static_cast<float>(s.b % 1000)); (void)cur->get_quantile(0.5); ctx.fault("interleaved_read"); } continue; }
      if (s.kind == K_UPD) {
        for (i64 j = 0; j < s.c; j++) {
          const i64 v = (s.b * 31 + j * 17) % 1000;
          std::map<i64, u64> before = weight_by_item(*cur); before[v] += 1;
          const S& pre = *cur;
          auto op = [&]() { S* c = new S(pre); c->update(static_cast<float>(v)); return c; };
          check_operation(op, before, pre.get_n() + 1, "update");
          // continue along one sampled leaf
          main_rnd.install(); cur->update(static_cast<float>(v)); SimRandom::uninstall();
        }
      } else if (s.kind == K_MERGE) {
        std::unique_ptr<S>& src = sk[static_cast<size_t>(s.b) % 3];
        if (!src || src.get() == cur.get() || !Kind::mergeable(*cur, *src)) continue;
        if (src->get_k() != cur->get_k()) { ctx.probe("merge_unequal_k_skipped_by_bit_oracle"); }
        std::map<i64, u64> before = weight_by_item(*cur); for (auto& kv : weight_by_item(*src)) before[kv.first] += kv.second;
        const S& a = *cur; const S& b = *src;
        auto op = [&]() { S* c = new S(a); c->merge(b); return c; };
        const u64 ka = a.get_k(), kb = b.get_k(), ratio = ka > kb ? ka / kb : kb / ka;
        check_operation(op, before, a.get_n() + b.get_n(), "merge", std::is_same<Kind, ClsKind<float>>::value && ratio >= 2 && (ratio & (ratio - 1)) == 0 ? ratio : 0);
        const bool src_compacted = src->is_estimation_mode();   // a source that never compacted hands over raw items: its k has not cost any accuracy
        main_rnd.install(); cur->merge(*src); SimRandom::uninstall();
        if (src_compacted) min_k[static_cast<size_t>(s.a) % 3] = std::min(min_k[static_cast<size_t>(s.a) % 3], min_k[static_cast<size_t>(s.b) % 3]);
        published_error(*cur, min_k[static_cast<size_t>(s.a) % 3]);
        ctx.nontrivial = true;
      }
      // the rank the sketch answers is the rank of its retained weighted items (the enumeration above works on those): a reader that took a stale
      // shortcut (cached view, "already sorted" flag) would answer something else
      if (!cur->is_empty()) { const std::map<i64, u64> w = weight_by_item(*cur); const double nn = static_cast<double>(cur->get_n());
        for (i64 v : { static_cast<i64>(-1), static_cast<i64>(s.b % 1000), static_cast<i64>(250), static_cast<i64>(500), static_cast<i64>(750), static_cast<i64>(1000) }) { const double got = cur->get_rank(static_cast<float>(v), true), want = static_cast<double>(rank_count(w, v)) / nn;
          if (std::fabs(got - want) > 1e-12) ctx.fail(fp("answered-rank-differs-from-retained-items"), "rank of " + std::to_string(v) + " answered " + hexd(got) + ", retained items give " + hexd(want) + " after " + (s.kind == K_MERGE ? "merge" : "update")); }
        ctx.check(); }
      ctx.t(static_cast<u64>(cur->get_n())); ctx.t(static_cast<u64>(cur->get_num_retained()));
    }
  }

  // oracle 3: the whole history under every coin sequence (for REQ, whose per-operation increments are not martingale differences)
  void run_whole_history() {
    const int hra = static_cast<int>(p.cfg[2] & 1);
    std::vector<std::vector<uint8_t>> stack; stack.push_back(std::vector<uint8_t>());
    struct Res { size_t depth; std::map<i64, u64> w; u64 n; };
    std::vector<Res> leaves; std::map<i64, u64> truth; int execs = 0; bool truth_done = false;
    while (!stack.empty()) {
      std::vector<uint8_t> prefix = stack.back(); stack.pop_back();
      if (++execs > 20000) { ctx.probe("history_draw_tree_too_large"); return; }
      SimRandom r(1); r.bit_script = prefix; r.bit_mode = SimRandom::ALL0; r.install();
      std::vector<std::unique_ptr<S>> sk(3); for (auto& x : sk) x.reset(new S(Kind::make(static_cast<int>(p.cfg[1]), hra)));
      std::vector<std::map<i64, u64>> tr(3);
      for (const Step& s : p.steps) {
        std::unique_ptr<S>& cur = sk[static_cast<size_t>(s.a) % 3]; auto& tcur = tr[static_cast<size_t>(s.a) % 3];
        if (s.kind == K_NEW) { cur.reset(new S(Kind::make(static_cast<int>(s.b), hra))); tcur.clear(); continue; }
        if (!cur) continue;
        if (s.kind == K_QUERY) { if (!cur->is_empty()) { (void)cur->get_rank(static_cast<float>(s.b % 1000)); (void)cur->get_quantile(0.5); } continue; }
        if (s.kind == K_UPD) for (i64 j = 0; j < s.c; j++) { const i64 v = (s.b * 31 + j * 17) % 1000; cur->update(static_cast<float>(v)); tcur[v] += 1; }
        else if (s.kind == K_MERGE) { std::unique_ptr<S>& src = sk[static_cast<size_t>(s.b) % 3]; if (!src || src.get() == cur.get() || !Kind::mergeable(*cur, *src)) continue; cur->merge(*src); for (auto& kv : tr[static_cast<size_t>(s.b) % 3]) tcur[kv.first] += kv.second; }
      }
      SimRandom::uninstall();
      if (r.bits_drawn > 14) { ctx.probe("history_needs_more_than_14_draws"); return; }
      if (r.bits_drawn <= prefix.size()) {
        // a leaf: observe the sketch with the most items
        size_t best = 0; for (size_t i = 1; i < 3; i++) if (sk[i] && (!sk[best] || sk[i]->get_n() > sk[best]->get_n())) best = i;
        Res res; res.depth = r.bits_drawn; res.w = weight_by_item(*sk[best]); res.n = sk[best]->get_n(); leaves.push_back(std::move(res));
        if (!truth_done) { truth = tr[best]; truth_done = true; }
      } else { std::vector<uint8_t> p0 = prefix, p1 = prefix; p0.push_back(0); p1.push_back(1); stack.push_back(p1); stack.push_back(p0); }
    }
    if (leaves.empty()) return;
    const size_t depth = leaves[0].depth;
    for (const Res& l : leaves) ctx.require(l.depth == depth, fp("number-of-coin-flips-depends-on-outcome").c_str(), std::to_string(depth) + " vs " + std::to_string(l.depth));
    ctx.require(leaves.size() == (static_cast<size_t>(1) << depth), fp("draw-tree-not-complete").c_str(), "");
    std::set<i64> pts; for (auto& kv : truth) pts.insert(kv.first);
    for (i64 v : pts) {
      unsigned __int128 sum = 0; for (const Res& l : leaves) sum += rank_count(l.w, v);
      const unsigned __int128 want = static_cast<unsigned __int128>(rank_count(truth, v)) << depth;
      if (sum != want) ctx.fail(fp("rank-biased-over-coin-flips"), "whole history: at v=" + std::to_string(v) + " mean rank count " + std::to_string(static_cast<double>(sum) / static_cast<double>(1ULL << depth)) + " true " + std::to_string(rank_count(truth, v)) + " over " + std::to_string(leaves.size()) + " coin sequences");
    }
    ctx.check(); ctx.probe("whole_history_enumerated"); if (depth >= 2) ctx.probe("coin_fork_depth_ge2"); if (depth == 0) ctx.probe("history_without_coin_flips");
    ctx.t(static_cast<u64>(depth)); ctx.t(static_cast<u64>(leaves.size()));
    ctx.nontrivial = depth > 0;
  }
};

struct C08World: World {
  const char* name() const override { return "c08"; }
  const char* step_name(int k) const override { static const char* nm[] = { "?", "update", "merge", "new", "query" }; return (k >= 1 && k <= 4) ? nm[k] : "step"; }
  std::string family_of(const Plan& p) const override { static const char* kn[] = { "kll", "req", "quantiles" }; return p.cfg.empty() ? "?" : kn[p.cfg[0] % 3]; }
  Plan generate(u64 run_seed, int tier) override {
    Plan p; p.run_seed = run_seed; Rng rc(run_seed, "cfg"), rp(run_seed, "plan");
    const i64 kind = static_cast<i64>(rc.below(3));
    // small k so that compactions are frequent: index 0..1 of each table
    p.cfg = { kind, static_cast<i64>(rc.below(kind == 2 ? 3 : 2)), static_cast<i64>(rc.below(2)) };
    int n = static_cast<int>(rp.range(2, tier ? 10 : 6));
    for (int i = 0; i < n; i++) {
      Step s; unsigned roll = static_cast<unsigned>(rp.below(100)); s.a = static_cast<i64>(rp.below(3));
      if (roll < 52) { s.kind = K_UPD; s.b = static_cast<i64>(rp.below(1000)); s.c = kind == 1 ? rp.range(1, 40) : kind == 2 ? rp.range(1, tier ? 90 : 50) : rp.range(1, tier ? 60 : 30); }
      else if (roll < 60) { s.kind = K_QUERY; s.b = static_cast<i64>(rp.below(1000)); }
      else if (roll < 85) { s.kind = K_MERGE; s.b = static_cast<i64>(rp.below(3)); }
      else { s.kind = K_NEW; s.b = static_cast<i64>(rp.below(kind == 2 ? 5 : kind == 0 ? 5 : 2)); }   // classic: k in {2, 4, 4, 8, 16}, so that down-sampling merges with strides 2, 4, 8 occur   // kll: k in {8, 8, 9, 12, 20} so that merge trees mix k
      p.steps.push_back(s);
    }
    return p;
  }
  void execute(const Plan& p, Ctx& ctx) override {
    alloc_state().reset_counters(); alloc_state().budget = static_cast<size_t>(1) << 31;
    switch (p.cfg[0] % 3) {
      case 0: C08Exec<KllKind<float>>(ctx, p).run_martingale(); break;
      case 1: C08Exec<ReqKind<float>>(ctx, p).run_whole_history(); break;
      default: C08Exec<ClsKind<float>>(ctx, p).run_martingale(); break;
    }
    SimRandom::uninstall();
  }
};

// C08, last clause: on long streams the rank error stays within the error the sketch itself publishes at least as often as claimed, also after
// merging. One stream per run (k, arrival order, length, single sketch or three sketches merged) is replayed under many coin sequences that the
// simulator owns; per query point the number of sequences in which the published bound fails is tested against the claimed rate
// (H0: miss rate <= claim; rejected at 1e-12 by the exact binomial tail).
double binom_tail_ge(int T, int m, double p) {   // P(X >= m), X ~ Binomial(T, p)
  if (m <= 0) return 1.0; if (m > T) return 0.0;
  double sum = 0; for (int x = m; x <= T; x++) { const double lg = std::lgamma(T + 1.0) - std::lgamma(x + 1.0) - std::lgamma(T - x + 1.0) + x * std::log(p) + (T - x) * std::log1p(-p); sum += std::exp(lg); if (x > m + 200 && std::exp(lg) < sum * 1e-18) break; }
  return sum;
}
struct C08StatWorld: World {
  const char* name() const override { return "c08s"; }
  const char* step_name(int) const override { return "monte_carlo"; }
  std::string family_of(const Plan& p) const override { static const char* kn[] = { "kll", "req", "quantiles" }; return p.cfg.empty() ? "?" : std::string(kn[p.cfg[0] % 3]) + "|published-error"; }
  Plan generate(u64 run_seed, int tier) override { Plan p; p.run_seed = run_seed; Rng r(run_seed, "cfg"); static const i64 mult[] = { 40, 150, 400, 1000 };
    p.cfg = { static_cast<i64>(r.below(3)), static_cast<i64>(r.below(tier ? 6 : 5)), static_cast<i64>(r.below(2)), static_cast<i64>(r.below(4)), mult[r.below(tier ? 4 : 3)], static_cast<i64>(r.below(2)), tier ? 1000 : 300 };
    Step s; s.kind = 1; p.steps.push_back(s); return p; }
  static i64 value_at(i64 i, i64 n, int order) { switch (order) { case 0: return i + 1; case 1: return n - i; case 2: return (i * 7919) % n + 1; default: return (i & 1) ? n - i / 2 : i / 2 + 1; } }
  template<typename S, typename Make> std::unique_ptr<S> build(Make make, i64 n, int order, int mode) {
    if (mode == 0) { std::unique_ptr<S> s(new S(make())); for (i64 i = 0; i < n; i++) s->update(static_cast<float>(value_at(i, n, order))); return s; }
    std::unique_ptr<S> a(new S(make())); S b(make()), c(make());
    for (i64 i = 0; i < n; i++) { const float v = static_cast<float>(value_at(i, n, order)); if (i % 3 == 0) a->update(v); else if (i % 3 == 1) b.update(v); else c.update(v); }
    a->merge(b); a->merge(std::move(c)); return a;
  }
  void verdict(Ctx& ctx, const std::string& fp, int T, int misses, double claim, const std::string& what) {
    ctx.check(); if (misses == 0) return;
    const double pv = binom_tail_ge(T, misses, claim);
    if (pv < 1e-12) ctx.fail(fp, what + ": the published bound failed in " + std::to_string(misses) + " of " + std::to_string(T) + " coin sequences, claimed at most " + std::to_string(claim * 100) + "% (P = " + hexd(pv) + ")");
  }
  void execute(const Plan& p, Ctx& ctx) override {
    alloc_state().reset_counters(); alloc_state().budget = static_cast<size_t>(1) << 31;
    const int kind = static_cast<int>(p.cfg[0] % 3), ki = static_cast<int>(p.cfg[1]), hra = static_cast<int>(p.cfg[2] & 1), order = static_cast<int>(p.cfg[3] & 3), mode = static_cast<int>(p.cfg[5] & 1), T = static_cast<int>(p.cfg[6]);
    const i64 k = kind == 0 ? KLL_KS[ki % 8] : kind == 1 ? REQ_KS[ki % 7] : CLS_KS[ki % 7]; const i64 n = k * p.cfg[4];
    ctx.begin_step(0, 1);
    const std::string cell = " (k=" + std::to_string(k) + " n=" + std::to_string(n) + " order=" + std::to_string(order) + (kind == 1 ? (hra ? " hra" : " lra") : "") + (mode ? " three sketches merged" : " one sketch") + ")";
    if (kind == 1) {
      typedef ReqKind<float>::S S;
      // query positions counted from the accurate end: dense around the end of the exact zone (3k items), then spreading out
      std::vector<i64> pos; for (i64 x : { static_cast<i64>(1), k, 2 * k, 3 * k - 1, 3 * k, 3 * k + 1, 3 * k + 2, 3 * k + k / 2, 4 * k, 4 * k + k / 4, 5 * k, 6 * k - 1, 6 * k, 7 * k, 8 * k, 12 * k, 16 * k, 24 * k }) if (x < n) pos.push_back(x); for (int j = 1; j < 12; j++) pos.push_back(j * n / 12);
      std::vector<std::array<int, 4>> miss(pos.size(), std::array<int, 4>{ { 0, 0, 0, 0 } }); std::vector<int> exact_wrong(pos.size(), 0), exact_wrong_beyond(pos.size(), 0);
      for (int t = 0; t < T; t++) {
        SimRandom rnd(mix(p.run_seed, static_cast<u64>(t))); RandomScope rs(rnd);
        std::unique_ptr<S> s = build<S>([&]() { return ReqKind<float>::make(ki, hra); }, n, order, mode);
        for (size_t q = 0; q < pos.size(); q++) { const i64 v = hra ? n - pos[q] + 1 : pos[q]; const double tr = static_cast<double>(v) / static_cast<double>(n), est = s->get_rank(static_cast<float>(v), true);
          for (int nsd = 1; nsd <= 3; nsd++) { const double lb = s->get_rank_lower_bound(est, static_cast<uint8_t>(nsd)), ub = s->get_rank_upper_bound(est, static_cast<uint8_t>(nsd)); if (tr < lb - 1e-12 || tr > ub + 1e-12) miss[q][static_cast<size_t>(nsd)]++; if (nsd == 3 && lb == ub && std::fabs(est - tr) > 1e-12) { const double zone = static_cast<double>(3 * k) / static_cast<double>(n); if (pos[q] > 3 * k && (hra ? est >= 1.0 - zone - 1e-12 : est <= zone + 1e-12)) exact_wrong[q]++; else exact_wrong_beyond[q]++; } } }
      }
      // "relative bounds at the accurate end": each half-width of the published interval may only shrink towards the accurate end (checked on one estimating sketch)
      { SimRandom rnd(mix(p.run_seed, 999999)); RandomScope rsb(rnd); std::unique_ptr<S> sb = build<S>([&]() { return ReqKind<float>::make(ki, hra); }, n, order, mode);
        if (sb->is_estimation_mode()) for (int nsd = 1; nsd <= 3; nsd++) { double prev_up = -1, prev_lo = -1;
          for (int g = 1; g <= 19; g++) { const double r = hra ? 1.0 - g * 0.05 : g * 0.05;   // walking away from the accurate end
            const double up = sb->get_rank_upper_bound(r, static_cast<uint8_t>(nsd)) - r, lo = r - sb->get_rank_lower_bound(r, static_cast<uint8_t>(nsd));
            if (up < prev_up - 1e-12 || lo < prev_lo - 1e-12) ctx.fail("C08|req|published-interval-narrower-away-from-the-accurate-end", std::string(up < prev_up - 1e-12 ? "upper" : "lower") + " half-width at rank " + std::to_string(r) + " is " + hexd(up < prev_up - 1e-12 ? up : lo) + ", nearer to the accurate end it was " + hexd(up < prev_up - 1e-12 ? prev_up : prev_lo) + cell);
            prev_up = up; prev_lo = lo; } }
        ctx.check(); }
      static const double claim[4] = { 0, 0.3173, 0.0455, 0.0027 };
      // a rank the sketch declares exact (zero-width bounds) must be exact under every coin sequence. Two cases: the estimate itself lies within the
      // never-compacted 3k items of the accurate end (the item is just outside and its estimate is off by an item or two), or it does not.
      // Classes are evaluated one after the other over all query points, so that a failure of one class cannot hide another class further on.
      for (size_t q = 0; q < pos.size(); q++) if (exact_wrong_beyond[q]) ctx.fail(std::string("C08|req|rank-declared-exact-is-wrong|") + (pos[q] <= 3 * k ? "item-inside-the-exact-zone" : "estimate-beyond-the-exact-zone"), "item " + std::to_string(pos[q]) + " from the accurate end: wrong in " + std::to_string(exact_wrong_beyond[q]) + " of " + std::to_string(T) + " coin sequences" + cell);
      // the exact zone under merges at arbitrary split points: two sketches of lengths a and n2 - a, merged; every one of the 3k items nearest to the accurate end
      // must be ranked exactly under every coin sequence (few sequences per scenario, many scenarios)
      { Rng rs2(p.run_seed, "splits");
        for (int sc = 0; sc < 40; sc++) { const i64 n2 = 6 * k + 1 + static_cast<i64>(rs2.below(static_cast<u64>(30 * k))), a = 1 + static_cast<i64>(rs2.below(static_cast<u64>(n2 - 1)));
          for (int t = 0; t < 4; t++) { SimRandom rnd(mix(p.run_seed, static_cast<u64>(1000000 + sc * 16 + t))); RandomScope rsc(rnd);
            S sa(ReqKind<float>::make(ki, hra)), sb(ReqKind<float>::make(ki, hra));
            for (i64 i = 0; i < n2; i++) { const float v = static_cast<float>(value_at(i, n2, order)); if (i < a) sa.update(v); else sb.update(v); }
            if (t & 1) sa.merge(sb); else { sb.merge(sa); std::swap(sa, sb); }
            for (i64 d = 1; d <= 3 * k && d <= n2; d++) { const i64 v = hra ? n2 - d + 1 : d; const double tr = static_cast<double>(v) / static_cast<double>(n2), est = sa.get_rank(static_cast<float>(v), true);
              if (std::fabs(est - tr) > 1e-12) ctx.fail("C08|req|rank-declared-exact-is-wrong|item-inside-the-exact-zone", "item " + std::to_string(d) + " from the accurate end: estimated rank " + std::to_string(est * static_cast<double>(n2)) + "/" + std::to_string(n2) + " true " + std::to_string(v) + "/" + std::to_string(n2) + " after merging sketches of " + std::to_string(a) + " and " + std::to_string(n2 - a) + " items (k=" + std::to_string(k) + (hra ? " hra" : " lra") + " order=" + std::to_string(order) + ")"); }
            ctx.check(); } }
        ctx.probe("exact_zone_merge_scenarios", 40); }
      for (size_t q = 0; q < pos.size(); q++) if (exact_wrong[q]) ctx.fail("C08|req|rank-declared-exact-is-wrong|estimate-inside-the-exact-zone", "item " + std::to_string(pos[q]) + " from the accurate end: wrong in " + std::to_string(exact_wrong[q]) + " of " + std::to_string(T) + " coin sequences" + cell);
      for (int nsd = 3; nsd >= 1; nsd--) for (size_t q = 0; q < pos.size(); q++) verdict(ctx, "C08|req|rank-bounds-cover-less-often-than-claimed|" + std::to_string(nsd) + "-std-dev", T, miss[q][static_cast<size_t>(nsd)], claim[nsd], "item " + std::to_string(pos[q]) + " from the accurate end" + cell);
    } else {
      auto run = [&](auto make, auto tag) {
        typedef decltype(tag) S;
        std::vector<float> pts; for (int j = 1; j <= 24; j++) pts.push_back(static_cast<float>(std::max<i64>(1, j * n / 25))); pts.erase(std::unique(pts.begin(), pts.end()), pts.end());
        std::vector<int> miss(pts.size(), 0); int pmf_miss = 0;
        for (int t = 0; t < T; t++) {
          SimRandom rnd(mix(p.run_seed, static_cast<u64>(t))); RandomScope rs(rnd);
          std::unique_ptr<S> s = build<S>(make, n, order, mode);
          const double e1 = s->get_normalized_rank_error(false), e2 = s->get_normalized_rank_error(true);
          for (size_t q = 0; q < pts.size(); q++) if (std::fabs(s->get_rank(pts[q], true) - static_cast<double>(pts[q]) / static_cast<double>(n)) > e1 + 1e-12) miss[q]++;
          auto pmf = s->get_PMF(pts.data(), static_cast<uint32_t>(pts.size()), true); bool bad = false; double prev = 0;
          for (size_t q = 0; q <= pts.size(); q++) { const double cum = q < pts.size() ? static_cast<double>(pts[q]) / static_cast<double>(n) : 1.0; if (std::fabs(pmf[q] - (cum - prev)) > e2 + 1e-12) bad = true; prev = cum; }
          if (bad) pmf_miss++;
        }
        for (size_t q = 0; q < pts.size(); q++) verdict(ctx, std::string("C08|") + (kind == 0 ? "kll" : "quantiles") + "|rank-error-above-published-more-often-than-claimed|single-sided", T, miss[q], 0.01, "rank of " + std::to_string(static_cast<i64>(pts[q])) + cell);
        verdict(ctx, std::string("C08|") + (kind == 0 ? "kll" : "quantiles") + "|rank-error-above-published-more-often-than-claimed|double-sided", T, pmf_miss, 0.01, "PMF over 24 split points" + cell);
      };
      if (kind == 0) run([&]() { return KllKind<float>::make(ki, 0); }, KllKind<float>::make(0, 0)); else run([&]() { return ClsKind<float>::make(ki, 0); }, ClsKind<float>::make(0, 0));
    }
    ctx.nontrivial = true; ctx.probe("monte_carlo_streams"); ctx.probe("coin_sequences", static_cast<u64>(T)); ctx.t(static_cast<u64>(n)); ctx.t(static_cast<u64>(k));
  }
};

struct Init { Init() { static C07World a; static C08World b; static C08StatWorld c; registry().push_back(&a); registry().push_back(&b); registry().push_back(&c); } } init_;
} // namespace

int main(int argc, char** argv) { sim::selftest_hashes(); return sim::sim_main(argc, argv); }
