// world `agg`, tuple part (C13): theta-sketch keys plus exact per-key summaries folded in arrival order; set operations with policies.
#include "../sim/driver.hpp"
#include "../sim/canon.hpp"
#include <tuple_sketch.hpp>
#include <tuple_union.hpp>
#include <tuple_intersection.hpp>
#include <tuple_a_not_b.hpp>
#include <array_tuple_sketch.hpp>
#include <array_tuple_union.hpp>
#include <array_tuple_intersection.hpp>
#include <array_tuple_a_not_b.hpp>
#include <theta_sketch.hpp>

using namespace sim;
namespace ds = datasketches;

namespace {
const u64 MAXT = 0x7fffffffffffffffULL;
static const float PS[4] = { 1.0f, 0.5f, 0.1f, 0.01f };
static const u64 SEEDS[3] = { ds::DEFAULT_SEED, 12345, 0x9e3779b97f4a7c15ULL };
u64 start_theta(float p) { return p < 1 ? static_cast<u64>(static_cast<double>(MAXT) * p) : MAXT; }
u64 h63(const Canon& c, u64 seed) { return murmur3_x64_128(c.data, c.len, seed).h1 >> 1; }
std::string hx(u64 v) { char b[24]; snprintf(b, sizeof(b), "%llx", static_cast<unsigned long long>(v)); return b; }
typedef std::vector<double> MSum;   // model summary: one sum (double), column sums (array of doubles), or the sequence of values (list)

// ---- summary kind 1: double with the default policies (commutative sum)
struct DoubleT {
  typedef talloc<double> A; typedef double Summary; typedef double Update;
  typedef ds::update_tuple_sketch<double, double, ds::default_tuple_update_policy<double, double>, A> U;
  typedef ds::compact_tuple_sketch<double, A> C;
  typedef ds::tuple_union<double, ds::default_tuple_union_policy<double>, A> UN;
  struct inter_policy { void operator()(double& s, const double& o) const { s += o; } };
  typedef ds::tuple_intersection<double, inter_policy, A> IN;
  typedef ds::tuple_a_not_b<double, A> ANB;
  static const char* name() { return "tuple<double>"; }
  static const bool ordered_fold = false;
  static U build(int lg_k, int rf, float p, u64 seed, int) { return U::builder(ds::default_tuple_update_policy<double, double>(), A(1)).set_lg_k(static_cast<uint8_t>(lg_k)).set_resize_factor(static_cast<U::resize_factor>(rf)).set_p(p).set_seed(seed).build(); }
  static UN build_union(int lg_k, u64 seed, int) { return UN::builder(ds::default_tuple_union_policy<double>(), A(1)).set_lg_k(static_cast<uint8_t>(lg_k)).set_seed(seed).build(); }
  static IN build_inter(u64 seed, int) { return IN(seed, inter_policy(), A(1)); }
  static ANB build_anb(u64 seed) { return ANB(seed, A(1)); }
  static Update value(i64 v, int) { return static_cast<double>(1 + v % 9) * 0.5; }
  static void fold(MSum& m, i64 v, int nv) { if (m.empty()) m.push_back(0); m[0] += value(v, nv); }
  static void combine(MSum& m, const MSum& o) { m[0] += o[0]; }
  static MSum of(const Summary& s) { return MSum{ s }; }
  static C from_theta(const ds::theta_sketch_alloc<talloc<uint64_t>>& t, int) { return C(t, 2.5, true); }
  static MSum theta_summary(int) { return MSum{ 2.5 }; }
  static bool pred(const Summary& s, double th) { return s > th; }
  static bool mpred(const MSum& m, double th) { return m[0] > th; }
};

// ---- summary kind 2: an ordered list (non-commutative, move-aware): arrival order and double application are visible
struct vlist { std::vector<double> v; };
struct ListT {
  typedef talloc<vlist> A; typedef vlist Summary; typedef double Update;
  struct upd_policy { vlist create() const { return vlist(); } void update(vlist& s, const double& x) const { s.v.push_back(x); } };
  struct set_policy { void operator()(vlist& s, const vlist& o) const { s.v.insert(s.v.end(), o.v.begin(), o.v.end()); } void operator()(vlist& s, vlist&& o) const { for (double x : o.v) s.v.push_back(x); o.v.clear(); } };
  typedef ds::update_tuple_sketch<vlist, double, upd_policy, A> U;
  typedef ds::compact_tuple_sketch<vlist, A> C;
  typedef ds::tuple_union<vlist, set_policy, A> UN;
  typedef ds::tuple_intersection<vlist, set_policy, A> IN;
  typedef ds::tuple_a_not_b<vlist, A> ANB;
  static const char* name() { return "tuple<list>"; }
  static const bool ordered_fold = true;
  static U build(int lg_k, int rf, float p, u64 seed, int) { return U::builder(upd_policy(), A(1)).set_lg_k(static_cast<uint8_t>(lg_k)).set_resize_factor(static_cast<U::resize_factor>(rf)).set_p(p).set_seed(seed).build(); }
  static UN build_union(int lg_k, u64 seed, int) { return UN::builder(set_policy(), A(1)).set_lg_k(static_cast<uint8_t>(lg_k)).set_seed(seed).build(); }
  static IN build_inter(u64 seed, int) { return IN(seed, set_policy(), A(1)); }
  static ANB build_anb(u64 seed) { return ANB(seed, A(1)); }
  static Update value(i64 v, int) { return static_cast<double>(v); }
  static void fold(MSum& m, i64 v, int) { m.push_back(static_cast<double>(v)); }
  static void combine(MSum& m, const MSum& o) { m.insert(m.end(), o.begin(), o.end()); }
  static MSum of(const Summary& s) { return s.v; }
  static C from_theta(const ds::theta_sketch_alloc<talloc<uint64_t>>& t, int) { vlist one; one.v.push_back(-1.0); return C(t, one, true); }
  static MSum theta_summary(int) { return MSum{ -1.0 }; }
  static bool pred(const Summary& s, double th) { return static_cast<double>(s.v.size()) > th / 2; }
  static bool mpred(const MSum& m, double th) { return static_cast<double>(m.size()) > th / 2; }
};

// ---- summary kind 3: array of doubles (1..4 columns)
struct AodT {
  typedef talloc<double> A; typedef ds::array<double, A> Summary; typedef std::vector<double> Update;
  typedef ds::default_array_tuple_update_policy<Summary, A> upd_policy;
  typedef ds::default_array_tuple_union_policy<Summary> set_policy;
  typedef ds::update_array_tuple_sketch<Summary, upd_policy, A> U;
  typedef ds::compact_array_tuple_sketch<Summary, A> C;
  typedef ds::array_tuple_union<Summary, set_policy, A> UN;
  typedef ds::array_tuple_intersection<Summary, set_policy, A> IN;
  typedef ds::array_tuple_a_not_b<Summary, A> ANB;
  static const char* name() { return "array_of_doubles"; }
  static const bool ordered_fold = false;
  static U build(int lg_k, int rf, float p, u64 seed, int nv) { return U::builder(upd_policy(static_cast<uint8_t>(nv), A(1)), A(1)).set_lg_k(static_cast<uint8_t>(lg_k)).set_resize_factor(static_cast<U::resize_factor>(rf)).set_p(p).set_seed(seed).build(); }
  static UN build_union(int lg_k, u64 seed, int nv) { return UN::builder(set_policy(static_cast<uint8_t>(nv)), A(1)).set_lg_k(static_cast<uint8_t>(lg_k)).set_seed(seed).build(); }
  static IN build_inter(u64 seed, int nv) { return IN(seed, set_policy(static_cast<uint8_t>(nv)), A(1)); }
  static ANB build_anb(u64 seed) { return ANB(seed, A(1)); }
  static Update value(i64 v, int nv) { Update u(static_cast<size_t>(nv)); for (int i = 0; i < nv; i++) u[static_cast<size_t>(i)] = static_cast<double>(1 + (v + i) % 7) * 0.25; return u; }
  static void fold(MSum& m, i64 v, int nv) { if (m.empty()) m.assign(static_cast<size_t>(nv), 0.0); Update u = value(v, nv); for (int i = 0; i < nv; i++) m[static_cast<size_t>(i)] += u[static_cast<size_t>(i)]; }
  static void combine(MSum& m, const MSum& o) { for (size_t i = 0; i < m.size(); i++) m[i] += o[i]; }
  static MSum of(const Summary& s) { MSum m; for (int i = 0; i < s.size(); i++) m.push_back(s[static_cast<size_t>(i)]); return m; }
  static bool pred(const Summary& s, double th) { return s[0] > th; }
  static bool mpred(const MSum& m, double th) { return m[0] > th; }
};

enum { T_UPD = 1, T_BATCH, T_RESET, T_TRIM, T_COMPACT, T_UNION_ADD, T_UNION_GET, T_INTER_ADD, T_INTER_GET, T_ANOTB, T_FILTER, T_COPY, T_NEW_OPS, T_SERDE, T_FROM_THETA, T_N };
const char* tnames[] = { "?", "update", "batch", "reset", "trim", "compact", "union_update", "union_get_result", "intersection_update", "intersection_get_result", "a_not_b", "filter", "copy", "new_operators", "serde", "theta_operand" };

typedef std::map<u64, MSum> MMap;
struct MTuple { u64 theta = MAXT; bool empty = true; MMap e; };

template<typename K> struct TupleExec {
  typedef typename K::U U; typedef typename K::C C;
  Ctx& ctx; const Plan& p; int nv; u64 seed;
  TupleExec(Ctx& c, const Plan& pl): ctx(c), p(pl) { nv = static_cast<int>(1 + p.cfg[5] % 4); seed = SEEDS[p.cfg[4] % 3]; }
  std::string fp(const char* cls) const { return std::string("C13|") + K::name() + "|" + cls; }
  struct Node { std::unique_ptr<U> sk; MMap all; bool any = false; u64 theta_prev = MAXT; };   // all: fold over every value offered per key since reset

  template<typename S> MTuple observe(const S& s) const { MTuple m; m.theta = s.get_theta64(); m.empty = s.is_empty(); for (auto it = s.begin(); it != s.end(); ++it) m.e[it->first] = K::of(it->second); return m; }

  void compare(const MTuple& got, const MTuple& want, const char* op, bool theta_when_empty = true) {
    ctx.require(got.empty == want.empty, fp((std::string(op) + "|emptiness").c_str()).c_str(), "");
    if (!want.empty || theta_when_empty) ctx.require(got.theta == want.theta, fp((std::string(op) + "|theta").c_str()).c_str(), hx(got.theta) + " vs " + hx(want.theta));
    for (auto& kv : want.e) { auto g = got.e.find(kv.first); if (g == got.e.end()) ctx.fail(fp((std::string(op) + "|missing-key").c_str()), hx(kv.first));
      if (g->second != kv.second) ctx.fail(fp((std::string(op) + "|summary-differs").c_str()), "key " + hx(kv.first) + " holds " + std::to_string(g->second.size()) + " value(s) first " + (g->second.empty() ? "-" : hexd(g->second[0])) + ", model " + std::to_string(kv.second.size()) + " value(s) first " + (kv.second.empty() ? "-" : hexd(kv.second[0]))); }
    if (got.e.size() != want.e.size()) ctx.fail(fp((std::string(op) + "|extra-key").c_str()), std::to_string(got.e.size()) + " vs " + std::to_string(want.e.size()));
    ctx.check();
  }

  void check_node(Node& n, int k, float pp, u64 tstart, const char* after) {
    const U& s = *n.sk; const u64 theta = s.get_theta64(); const std::string w = std::string(" after ") + after;
    ctx.require(s.is_empty() == !n.any, fp("emptiness").c_str(), w);
    if (s.is_empty()) { ctx.require(theta == MAXT && s.get_num_retained() == 0, fp("empty-sketch-theta-or-entries").c_str(), w); n.theta_prev = tstart; return; }
    ctx.require(theta <= n.theta_prev && (theta == tstart || n.all.count(theta)), fp("theta-rule").c_str(), hx(theta) + w); n.theta_prev = theta;
    MTuple want; want.theta = theta; want.empty = false; for (auto& kv : n.all) { if (kv.first >= theta) break; if (kv.first) want.e[kv.first] = kv.second; }
    MTuple got = observe(s);
    compare(got, want, "update-sketch");
    ctx.require(s.get_num_retained() == got.e.size(), fp("num-retained-vs-iteration").c_str(), std::to_string(s.get_num_retained()) + " vs " + std::to_string(got.e.size()) + " (duplicate key?)" + w);
    if (theta < tstart) { ctx.require(got.e.size() >= static_cast<size_t>(k), fp("theta-lowered-with-fewer-than-k").c_str(), w); ctx.probe("theta_rebuilt_entries_moved"); }
    if (pp == 1.0f && n.all.size() <= static_cast<size_t>(k)) ctx.require(theta == MAXT && s.get_estimate() == static_cast<double>(n.all.size()), fp("not-exact-within-nominal-size").c_str(), w);
  }

  // physical forms of an operand. By reference it comes as const or as NON-const lvalue (an operation must not take anything out of an lvalue it was
  // only lent), and a compact operand delivered by reference must still hold what it held
  template<typename F> void deliver(U& sk, int form, bool rvalue, F&& f) {
    switch (form % 6) {
      case 0: if (rvalue) { U tmp(sk); f(std::move(tmp)); } else f(const_cast<const U&>(sk)); break;
      case 1: { C c = sk.compact(true); if (rvalue) f(std::move(c)); else { const C& cc = c; f(cc); } break; }
      case 2: { C c = sk.compact(false); if (rvalue) f(std::move(c)); else { const C& cc = c; f(cc); } break; }
      case 3: { C c = sk.compact(true); C c2(c); f(std::move(c2)); break; }
      case 4: f(sk); ctx.probe("operand_as_non_const_lvalue"); break;   // the update sketch itself: check_node() compares it with the model after the step
      default: { C c = sk.compact((form / 6) & 1); const MTuple before = observe(c); f(c); compare(observe(c), before, "operand-lent-by-reference-was-modified"); ctx.probe("operand_as_non_const_lvalue"); break; }
    }
  }

  void run() {
    const int lg_k = static_cast<int>(p.cfg[1]), rf = static_cast<int>(p.cfg[2]); const float pp = PS[p.cfg[3] & 3]; const int k = 1 << lg_k; const u64 tstart = start_theta(pp);
    const int lg_u = static_cast<int>(p.cfg[6]); const size_t ku = static_cast<size_t>(1) << lg_u;
    std::vector<Node> nodes(3); for (Node& n : nodes) { n.sk.reset(new U(K::build(lg_k, rf, pp, seed, nv))); n.theta_prev = tstart; }
    std::unique_ptr<typename K::UN> un(new typename K::UN(K::build_union(lg_u, seed, nv)));
    std::unique_ptr<typename K::IN> in(new typename K::IN(K::build_inter(seed, nv)));
    typename K::ANB anb = K::build_anb(seed);
    u64 u_theta = MAXT; MMap u_map; bool u_empty = true;
    bool i_valid = false, i_empty = false; u64 i_theta = MAXT; MMap i_map;
    auto union_result = [&]() { MTuple m; m.empty = u_empty; m.theta = u_theta; m.e = u_map; if (m.e.size() > ku) { auto it = m.e.begin(); std::advance(it, static_cast<std::ptrdiff_t>(ku)); m.theta = it->first; m.e.erase(it, m.e.end()); } return m; };
    int idx = 0;
    for (const Step& s : p.steps) {
      ctx.begin_step(idx++, s.kind);
      Node& n = nodes[static_cast<size_t>(s.a) % nodes.size()];
      switch (s.kind) {
        case T_UPD: { const int type = static_cast<int>(s.c) % N_TYPES; Canon c; auto val = K::value(s.b * 7 + idx, nv);
          struct Adapter { U& u; decltype(val)& v; void update(const std::string& x) { u.update(x, v); } void update(uint64_t x) { u.update(x, v); } void update(int64_t x) { u.update(x, v); } void update(uint32_t x) { u.update(x, v); } void update(int32_t x) { u.update(x, v); }
            void update(uint16_t x) { u.update(x, v); } void update(int16_t x) { u.update(x, v); } void update(uint8_t x) { u.update(x, v); } void update(int8_t x) { u.update(x, v); } void update(double x) { u.update(x, v); } void update(float x) { u.update(x, v); } void update(const void* d, size_t l) { u.update(d, l, v); } } ad{ *n.sk, val };
          c = typed_update(ad, s.b, type);
          if (!c.ignored) { n.any = true; u64 h = h63(c, seed); if (h) K::fold(n.all[h], s.b * 7 + idx, nv); }
          break; }
        case T_BATCH: { for (i64 j = 0; j < s.c; j++) { const i64 key = s.b + (j % std::max<i64>(1, s.c / 3 + 1)); const i64 v = j * 13 + idx; n.sk->update(static_cast<int64_t>(key), K::value(v, nv)); n.any = true; u64 h = h63(canon_i64(key), seed); if (h) K::fold(n.all[h], v, nv); } break; }
        case T_RESET: n.sk->reset(); n.all.clear(); n.any = false; n.theta_prev = tstart; break;
        case T_TRIM: n.sk->trim(); ctx.require(n.sk->get_num_retained() <= static_cast<uint32_t>(k), fp("trim-leaves-more-than-k").c_str(), ""); break;
        case T_COMPACT: { C c = n.sk->compact(s.b & 1); MTuple a = observe(*n.sk), b = observe(c); compare(b, a, "compact"); C c2(std::move(c)); compare(observe(c2), a, "moved-compact"); ctx.nontrivial = true; break; }
        case T_SERDE: serde(n); break;
        case T_COPY: { Node& d = nodes[static_cast<size_t>(s.b) % nodes.size()]; if (&d != &n) { if (s.c & 1) { *d.sk = *n.sk; ctx.probe("copy_assign"); } else d.sk.reset(new U(*n.sk)); d.all = n.all; d.any = n.any; d.theta_prev = n.theta_prev; } else { *n.sk = *n.sk; } ctx.nontrivial = true; break; }   // copy assignment onto a sketch with another theta, or copy construction
        case T_UNION_ADD: {
          MTuple x = observe(*n.sk);
          deliver(*n.sk, static_cast<int>(s.b), (s.c & 1) != 0, [&](auto&& sk) { un->update(std::forward<decltype(sk)>(sk)); });
          if (!x.empty) { u_empty = false; u_theta = std::min(u_theta, x.theta);
            for (auto& kv : x.e) if (kv.first < u_theta) { auto it = u_map.find(kv.first); if (it == u_map.end()) u_map[kv.first] = kv.second; else K::combine(it->second, kv.second); }
            while (!u_map.empty() && u_map.rbegin()->first >= u_theta) u_map.erase(std::prev(u_map.end())); }
          compare(observe(un->get_result(true)), union_result(), "union", false); ctx.nontrivial = true; ctx.probe("union_delivery"); break; }
        case T_UNION_GET: { C r = un->get_result((s.b & 1) != 0); compare(observe(r), union_result(), "union", false); if (s.b & 1) { u64 prev = 0; for (auto it = r.begin(); it != r.end(); ++it) { ctx.require(it->first >= prev, fp("union|ordered-result-not-sorted").c_str(), ""); prev = it->first; } } ctx.fault("interleaved_read"); break; }
        case T_INTER_ADD: {
          MTuple x = observe(*n.sk);
          deliver(*n.sk, static_cast<int>(s.b), (s.c & 1) != 0, [&](auto&& sk) { in->update(std::forward<decltype(sk)>(sk)); });
          if (!i_empty) { i_empty = i_empty || x.empty; i_theta = i_empty ? MAXT : std::min(i_theta, x.theta);
            if (!i_valid) { i_valid = true; if (!x.empty) for (auto& kv : x.e) if (kv.first < i_theta) i_map[kv.first] = kv.second; }
            else { MMap keep; for (auto& kv : i_map) { auto o = x.e.find(kv.first); if (kv.first < i_theta && o != x.e.end()) { MSum m = kv.second; K::combine(m, o->second); keep[kv.first] = m; } } i_map.swap(keep); }
            if (i_empty) i_map.clear(); if (i_map.empty() && i_theta == MAXT) i_empty = true; }
          MTuple w; w.empty = i_empty; w.theta = i_theta; w.e = i_map; compare(observe(in->get_result(true)), w, "intersection"); ctx.nontrivial = true; break; }
        case T_INTER_GET: { if (!i_valid) { bool t = false; try { in->get_result(); } catch (const std::invalid_argument&) { t = true; } ctx.require(t, fp("intersection|get_result-before-update-not-refused").c_str(), ""); ctx.fault("refused_op"); }
          else { MTuple w; w.empty = i_empty; w.theta = i_theta; w.e = i_map; compare(observe(in->get_result((s.b & 1) != 0)), w, "intersection"); ctx.fault("interleaved_read"); } break; }
        case T_NEW_OPS: if (s.c & 3) { un->reset(); ctx.probe("union_reset_and_reused"); }   // the union object itself is reset and used again (three times out of four), else replaced by a fresh one
          else un.reset(new typename K::UN(K::build_union(lg_u, seed, nv))); in.reset(new typename K::IN(K::build_inter(seed, nv))); u_theta = MAXT; u_map.clear(); u_empty = true; i_valid = false; i_empty = false; i_theta = MAXT; i_map.clear(); break;
        case T_ANOTB: { Node& b = nodes[static_cast<size_t>(s.b) % nodes.size()]; MTuple xa = observe(*n.sk), xb = observe(*b.sk); MTuple w;
          if (xa.empty || (!xa.e.empty() && xb.empty)) w = xa; else { w.theta = std::min(xa.theta, xb.theta); w.empty = false; for (auto& kv : xa.e) if (kv.first < w.theta && !xb.e.count(kv.first)) w.e[kv.first] = kv.second; if (w.e.empty() && w.theta == MAXT) w.empty = true; }
          std::unique_ptr<C> res;
          deliver(*n.sk, static_cast<int>(s.c), false, [&](auto&& a_) { deliver(*b.sk, static_cast<int>(s.c >> 2), false, [&](auto&& b_) { res.reset(new C(anb.compute(a_, b_, (s.c & 16) != 0))); }); });
          compare(observe(*res), w, "a_not_b"); ctx.nontrivial = true; break; }
        case T_FILTER: { const double th = static_cast<double>(s.b % 12); auto r = n.sk->filter([&](const typename K::Summary& x) { return K::pred(x, th); });
          MTuple a = observe(*n.sk), w; w.theta = a.theta; w.empty = a.empty; for (auto& kv : a.e) if (K::mpred(kv.second, th)) w.e[kv.first] = kv.second;
          MTuple g = observe(r); ctx.require(g.theta == w.theta, fp("filter|theta").c_str(), ""); ctx.require(g.e == w.e, fp("filter|entries-differ-from-predicate").c_str(), std::to_string(g.e.size()) + " vs " + std::to_string(w.e.size()));
          // a filtered sketch is empty only if its source is, or if nothing is left of an exact source: theta below 1 still says that items were seen
          w.empty = a.empty || (a.theta == MAXT && w.e.empty());
          ctx.require(g.empty == w.empty, fp("filter|emptiness").c_str(), "result empty=" + std::to_string(g.empty) + " expected " + std::to_string(w.empty) + " (source theta " + hx(a.theta) + ", " + std::to_string(w.e.size()) + " entries kept)");
          // and the filtered sketch must behave as that sketch when it is used as an operand
          { typename K::UN u2 = K::build_union(lg_u, seed, nv); u2.update(r); MTuple ur = observe(u2.get_result(true)); MTuple uw = w; if (uw.e.size() > ku) { auto it = uw.e.begin(); std::advance(it, static_cast<std::ptrdiff_t>(ku)); uw.theta = it->first; uw.e.erase(it, uw.e.end()); }
            if (!w.empty) compare(ur, uw, "union-of-filtered", false); }
          break; }
        case T_FROM_THETA: from_theta(&n, &s, 0); break;
        default: break;
      }
      for (Node& x : nodes) check_node(x, k, pp, tstart, tnames[s.kind]);
      ctx.t(static_cast<u64>(n.sk->get_num_retained())); ctx.t(n.sk->get_theta64()); ctx.t(static_cast<u64>(u_map.size()));
    }
  }
  void serde(Node&) {}
  // Theta sketches as operands: converted with a constant summary; the converted sketch must hold the theta sketch's keys, be sorted when it
  // says it is ordered, and give exact results when used in A-not-B / intersection / union next to tuple operands
  template<typename KK = K> auto from_theta(Node* np, const Step* sp, int) -> decltype(KK::theta_summary(0), void()) { Node& n = *np; const Step& s = *sp;
    typedef talloc<uint64_t> TA; typedef ds::update_theta_sketch_alloc<TA> TU; typedef ds::compact_theta_sketch_alloc<TA> TC;
    TU tu = typename TU::builder(TA(1)).set_lg_k(static_cast<uint8_t>(p.cfg[1])).set_p(PS[p.cfg[3] & 3]).set_seed(seed).build();
    for (i64 j = 0; j < 40 + s.b * 6; j++) tu.update(static_cast<int64_t>(s.b + j));
    const MTuple na = observe(*n.sk); const size_t ku = static_cast<size_t>(1) << p.cfg[6];
    MTuple w; w.theta = tu.get_theta64(); w.empty = tu.is_empty(); for (auto it = tu.begin(); it != tu.end(); ++it) w.e[*it] = KK::theta_summary(nv);
    for (int form = 0; form < 3; form++) {
      TC tc = tu.compact(form == 2);
      C conv = form == 0 ? KK::from_theta(tu, nv) : KK::from_theta(tc, nv);   // unordered table, unordered compact, ordered compact: all asked to be ordered
      compare(observe(conv), w, "theta-conversion");
      if (conv.is_ordered()) { u64 prev = 0; for (auto it = conv.begin(); it != conv.end(); ++it) { ctx.require(it->first >= prev, fp("theta-conversion|claims-ordered-but-is-not-sorted").c_str(), "form " + std::to_string(form)); prev = it->first; } }
      typename K::ANB anb = K::build_anb(seed); C nb = n.sk->compact(true);
      { MTuple x; if (w.empty || (!w.e.empty() && na.empty)) x = w; else { x.theta = std::min(w.theta, na.theta); x.empty = false; for (auto& kv : w.e) if (kv.first < x.theta && !na.e.count(kv.first)) x.e[kv.first] = kv.second; if (x.e.empty() && x.theta == MAXT) x.empty = true; }
        compare(observe(anb.compute(conv, nb, true)), x, "a_not_b-theta-operand"); }
      { typename K::IN in2 = K::build_inter(seed, nv); in2.update(nb); in2.update(conv); MTuple x; x.empty = na.empty || w.empty; x.theta = x.empty ? MAXT : std::min(na.theta, w.theta);
        if (!x.empty) for (auto& kv : na.e) { auto o = w.e.find(kv.first); if (kv.first < x.theta && o != w.e.end()) { MSum m = kv.second; K::combine(m, o->second); x.e[kv.first] = m; } }
        if (x.e.empty() && x.theta == MAXT) x.empty = true;
        compare(observe(in2.get_result(true)), x, "intersection-theta-operand"); }
      { typename K::UN u2 = K::build_union(static_cast<int>(p.cfg[6]), seed, nv); u2.update(nb); u2.update(conv); MTuple x; x.empty = na.empty && w.empty; x.theta = MAXT; if (!na.empty) x.theta = std::min(x.theta, na.theta); if (!w.empty) x.theta = std::min(x.theta, w.theta);
        if (!na.empty) for (auto& kv : na.e) if (kv.first < x.theta) x.e[kv.first] = kv.second;
        if (!w.empty) for (auto& kv : w.e) if (kv.first < x.theta) { auto it = x.e.find(kv.first); if (it == x.e.end()) x.e[kv.first] = kv.second; else K::combine(it->second, kv.second); }
        if (x.e.size() > ku) { auto it = x.e.begin(); std::advance(it, static_cast<std::ptrdiff_t>(ku)); x.theta = it->first; x.e.erase(it, x.e.end()); }
        compare(observe(u2.get_result(true)), x, "union-theta-operand", false); }
      ctx.probe("theta_operand_form"); ctx.nontrivial = true;
    }
  }
  void from_theta(Node*, const Step*, long) {}
};

struct C13World: World {
  const char* name() const override { return "c13"; }
  const char* step_name(int k) const override { return (k >= 1 && k < T_N) ? tnames[k] : "step"; }
  std::string family_of(const Plan& p) const override { static const char* n[] = { "tuple<double>", "tuple<list>", "array_of_doubles" }; return p.cfg.empty() ? "?" : n[p.cfg[0] % 3]; }
  Plan generate(u64 run_seed, int tier) override {
    Plan p; p.run_seed = run_seed; Rng rc(run_seed, "cfg"), rp(run_seed, "plan");
    static const int lgs[] = { 5, 5, 6, 7, 8 };
    p.cfg = { static_cast<i64>(rc.below(3)), rc.pick(lgs), static_cast<i64>(rc.below(4)), rc.chance(1, 2) ? 0 : static_cast<i64>(rc.below(4)), static_cast<i64>(rc.below(3)), static_cast<i64>(rc.below(4)), rc.pick(lgs) };
    int n = static_cast<int>(rp.range(4, tier ? 50 : 22));
    for (int i = 0; i < n; i++) {
      Step s; unsigned roll = static_cast<unsigned>(rp.below(100)); s.a = static_cast<i64>(rp.below(3)); s.b = static_cast<i64>(rp.below(100)); s.c = static_cast<i64>(rp.below(64));
      if (roll < 20) s.kind = T_UPD; else if (roll < 45) { s.kind = T_BATCH; s.b = static_cast<i64>(rp.below(400)); static const i64 cnt[] = { 3, 10, 40, 100, 300, 900 }; s.c = std::min<i64>(rp.pick(cnt), tier ? 900 : 300); }
      else if (roll < 48) s.kind = T_RESET; else if (roll < 52) s.kind = T_TRIM; else if (roll < 57) s.kind = T_COMPACT;
      else if (roll < 68) s.kind = T_UNION_ADD; else if (roll < 73) s.kind = T_UNION_GET; else if (roll < 81) s.kind = T_INTER_ADD; else if (roll < 84) s.kind = T_INTER_GET;
      else if (roll < 90) s.kind = T_ANOTB; else if (roll < 94) s.kind = T_FILTER; else if (roll < 96) s.kind = T_COPY; else if (roll < 98) s.kind = T_FROM_THETA; else s.kind = T_NEW_OPS;
      p.steps.push_back(s);
    }
    return p;
  }
  void execute(const Plan& p, Ctx& ctx) override {
    alloc_state().reset_counters(); alloc_state().budget = static_cast<size_t>(1) << 31;
    switch (p.cfg[0] % 3) { case 0: TupleExec<DoubleT>(ctx, p).run(); break; case 1: TupleExec<ListT>(ctx, p).run(); break; default: TupleExec<AodT>(ctx, p).run(); break; }
    if (!alloc_state().errors.empty()) ctx.fail("C13|allocator-misuse", alloc_state().errors[0]);
  }
};

struct Init { Init() { static C13World a; registry().push_back(&a); } } init_;
} // namespace

int main(int argc, char** argv) { sim::selftest_hashes(); return sim::sim_main(argc, argv); }
