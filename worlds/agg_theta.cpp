// world `agg`, theta part: C01 (update sketch = exact hash-threshold sample) and C02 (set operations = exact set expressions).
// Producers feed local update sketches from a seeded source log with redelivery (at-least-once) and permutation; an aggregator
// owns stateful union / intersection / a-not-b operators fed every physical form in scheduler order with interleaved reads.
#include "../sim/driver.hpp"
#include "../sim/seams.hpp"
#include <theta_sketch.hpp>
#include <theta_union.hpp>
#include <theta_intersection.hpp>
#include <theta_a_not_b.hpp>
#include <theta_jaccard_similarity.hpp>
#include <cmath>
#include <limits>

using namespace sim;
namespace ds = datasketches;

namespace {

typedef talloc<uint64_t> A;
typedef ds::update_theta_sketch_alloc<A> U;
typedef ds::compact_theta_sketch_alloc<A> C;
typedef ds::wrapped_compact_theta_sketch_alloc<A> W;
const u64 MAXT = 0x7fffffffffffffffULL;
static const float PS[4] = { 1.0f, 0.5f, 0.1f, 0.01f };
static const u64 SEEDS[3] = { ds::DEFAULT_SEED, 12345, 0x9e3779b97f4a7c15ULL };

U build(int lg_k, int rf, float p, u64 seed) {
  return U::builder(A(1)).set_lg_k(static_cast<uint8_t>(lg_k)).set_resize_factor(static_cast<U::resize_factor>(rf)).set_p(p).set_seed(seed).build();
}
u64 start_theta(float p) { return p < 1 ? static_cast<u64>(static_cast<double>(MAXT) * p) : MAXT; }

// ---- the documented canonicalisation and hash, written independently of the library
u64 h63(const void* d, size_t n, u64 seed) { return murmur3_x64_128(d, n, seed).h1 >> 1; }
u64 h_i64(i64 v, u64 seed) { uint8_t b[8]; for (int i = 0; i < 8; i++) b[i] = static_cast<uint8_t>(static_cast<u64>(v) >> (8 * i)); return h63(b, 8, seed); }
u64 h_double(double d, u64 seed) {
  u64 bits;
  if (d == 0.0) bits = 0; else if (std::isnan(d)) bits = 0x7ff8000000000000ULL; else std::memcpy(&bits, &d, 8);
  return h_i64(static_cast<i64>(bits), seed);
}

enum ValType { T_I64, T_U64, T_I32, T_U32, T_I16, T_U16, T_I8, T_U8, T_DOUBLE, T_FLOAT, T_STRING, T_BYTES, T_NEGZERO, T_NAN, T_EMPTYSTR, T_INF, T_NINF, T_FNAN, N_TYPES };

// applies one typed update to a sketch-like object and returns the model hash (0 = ignored input)
template<typename S> u64 typed_update(S& s, i64 v, int type, u64 seed) {
  switch (type) {
    case T_I64: s.update(static_cast<int64_t>(v - 50)); return h_i64(v - 50, seed);
    case T_U64: s.update(static_cast<uint64_t>(v)); return h_i64(v, seed);
    case T_I32: s.update(static_cast<int32_t>(v - 50)); return h_i64(v - 50, seed);
    case T_U32: { uint32_t x = static_cast<uint32_t>(0xfffffff0u + static_cast<uint32_t>(v)); s.update(x); return h_i64(static_cast<i64>(static_cast<int32_t>(x)), seed); }
    case T_I16: s.update(static_cast<int16_t>(v - 50)); return h_i64(static_cast<int16_t>(v - 50), seed);
    case T_U16: { uint16_t x = static_cast<uint16_t>(0xfff0u + static_cast<unsigned>(v)); s.update(x); return h_i64(static_cast<i64>(static_cast<int16_t>(x)), seed); }
    case T_I8: s.update(static_cast<int8_t>(v - 50)); return h_i64(static_cast<int8_t>(v - 50), seed);
    case T_U8: { uint8_t x = static_cast<uint8_t>(0xf0u + static_cast<unsigned>(v)); s.update(x); return h_i64(static_cast<i64>(static_cast<int8_t>(x)), seed); }
    case T_DOUBLE: { double d = static_cast<double>(v) / 4.0; s.update(d); return h_double(d, seed); }
    case T_FLOAT: { float f = static_cast<float>(v) / 3.0f; s.update(f); return h_double(static_cast<double>(f), seed); }
    case T_STRING: { std::string str = "k" + std::to_string(v); s.update(str); return h63(str.data(), str.size(), seed); }
    case T_BYTES: { uint8_t b[24]; size_t n = static_cast<size_t>(v % 24); for (size_t i = 0; i < n; i++) b[i] = static_cast<uint8_t>(v * 7 + static_cast<i64>(i)); s.update(static_cast<const void*>(b), n); return h63(b, n, seed); }
    case T_NEGZERO: s.update(-0.0); return h_double(0.0, seed);
    case T_NAN: s.update(std::numeric_limits<double>::quiet_NaN() * (v % 2 ? 1 : -1)); return h_double(std::numeric_limits<double>::quiet_NaN(), seed);
    case T_EMPTYSTR: s.update(std::string()); return 0;
    case T_INF: s.update(std::numeric_limits<double>::infinity()); return h_double(std::numeric_limits<double>::infinity(), seed);
    case T_NINF: s.update(-std::numeric_limits<float>::infinity()); return h_double(-std::numeric_limits<double>::infinity(), seed);
    default: s.update(std::numeric_limits<float>::quiet_NaN()); return h_double(std::numeric_limits<double>::quiet_NaN(), seed);
  }
}

template<typename S> std::vector<u64> entries_of(const S& s) { std::vector<u64> e; for (auto it = s.begin(); it != s.end(); ++it) e.push_back(*it); return e; }

std::string hx(u64 v) { char b[24]; snprintf(b, sizeof(b), "%llx", static_cast<unsigned long long>(v)); return b; }

// ================================================================== C01
enum { O_UPD = 1, O_BATCH = 2, O_REDELIVER = 3, O_TRIM = 4, O_RESET = 5, O_COMPACT = 6, O_COPY = 7, O_ASSIGN = 8, O_SERDE = 9, O_PERMUTED = 10 };

struct C01World: World {
  const char* name() const override { return "c01"; }
  const char* step_name(int k) const override { static const char* n[] = { "?", "update", "batch", "redeliver", "trim", "reset", "compact", "copy", "assign", "serde", "permuted_batch" }; return (k >= 1 && k <= 10) ? n[k] : "step"; }
  std::string family_of(const Plan&) const override { return "theta_update"; }
  Plan generate(u64 run_seed, int tier) override {
    Plan p; p.run_seed = run_seed; Rng rc(run_seed, "cfg"), rp(run_seed, "plan"), rf(run_seed, "fault");
    static const int lgs[] = { 5, 5, 6, 6, 7, 8, 9, 12 };
    p.cfg = { rc.pick(lgs), static_cast<i64>(rc.below(4)), rc.chance(1, 2) ? 0 : static_cast<i64>(rc.below(4)), static_cast<i64>(rc.below(3)), 6 + static_cast<i64>(rc.below(tier ? 11 : 8)) };
    const bool faults = !rc.chance(1, 10);
    int n = static_cast<int>(rp.range(3, tier ? 60 : 24));
    for (int i = 0; i < n; i++) {
      Step s; unsigned roll = static_cast<unsigned>(rp.below(100));
      s.a = static_cast<i64>(rp.below(4));
      if (roll < 30) { s.kind = O_UPD; s.b = static_cast<i64>(rp.below(100)); s.c = static_cast<i64>(rp.below(N_TYPES)); }
      else if (roll < 58) { s.kind = rp.chance(1, 4) ? O_PERMUTED : O_BATCH; s.b = static_cast<i64>(rp.below(1u << p.cfg[4])); static const i64 cnt[] = { 1, 5, 20, 33, 64, 100, 300, 700, 1500, 4000 }; s.c = rp.pick(cnt); if (!tier && s.c > 1500) s.c = 1500; }
      else if (roll < 66) { s.kind = faults ? O_REDELIVER : O_BATCH; s.b = static_cast<i64>(rf.below(8)); s.c = 50; }
      else if (roll < 73) s.kind = O_TRIM;
      else if (roll < 77) s.kind = O_RESET;
      else if (roll < 85) { s.kind = O_COMPACT; s.b = static_cast<i64>(rp.below(2)); }
      else if (roll < 91) { s.kind = O_COPY; s.b = static_cast<i64>(rp.below(4)); }
      else if (roll < 95) { s.kind = O_ASSIGN; s.b = static_cast<i64>(rp.below(4)); s.c = static_cast<i64>(rp.below(2)); }
      else { s.kind = O_SERDE; s.b = static_cast<i64>(rp.below(3)); }
      p.steps.push_back(s);
    }
    return p;
  }

  struct Node { std::unique_ptr<U> sk; std::set<u64> seen; bool any = false; u64 theta_prev = MAXT; std::vector<std::pair<i64, i64>> batches; };

  void check(Ctx& ctx, Node& n, int k, float p, u64 tstart, const char* after) {
    const U& s = *n.sk;
    const u64 theta = s.get_theta64();
    std::vector<u64> e = entries_of(s);
    std::sort(e.begin(), e.end());
    const std::string ctxs = std::string(" after ") + after;
    // I7 emptiness
    ctx.require(s.is_empty() == !n.any, "C01|emptiness", "is_empty=" + std::to_string(s.is_empty()) + " but non-ignored inputs offered=" + std::to_string(n.any) + ctxs);
    if (s.is_empty()) { ctx.require(theta == MAXT && e.empty(), "C01|empty-sketch-theta-or-entries", "theta=" + hx(theta) + " retained=" + std::to_string(e.size()) + ctxs); n.theta_prev = tstart; return; }
    // I2 theta monotone, and either the start value or a hash seen
    ctx.require(theta <= n.theta_prev, "C01|theta-increased", hx(n.theta_prev) + " -> " + hx(theta) + ctxs);
    ctx.require(theta == tstart || n.seen.count(theta) != 0, "C01|theta-not-start-nor-seen-hash", "theta=" + hx(theta) + ctxs);
    n.theta_prev = theta;
    // I1 exactly the distinct hashes seen below theta
    std::vector<u64> want; for (u64 h : n.seen) { if (h >= theta) break; if (h != 0) want.push_back(h); }
    if (e != want) {
      std::string d = "retained " + std::to_string(e.size()) + " expected " + std::to_string(want.size()) + " theta=" + hx(theta);
      for (size_t i = 1; i < e.size(); i++) if (e[i] == e[i - 1]) { d += " duplicate " + hx(e[i]); break; }
      std::vector<u64> miss, extra; std::set_difference(want.begin(), want.end(), e.begin(), e.end(), std::back_inserter(miss)); std::set_difference(e.begin(), e.end(), want.begin(), want.end(), std::back_inserter(extra));
      if (!miss.empty()) d += " missing " + hx(miss[0]); if (!extra.empty()) d += " extra " + hx(extra[0]) + (extra[0] >= theta ? " (>= theta)" : "");
      ctx.fail(miss.empty() ? (extra.empty() ? "C01|duplicate-entry" : "C01|extra-entry") : "C01|missing-entry", d + ctxs);
    }
    ctx.require(s.get_num_retained() == e.size(), "C01|num-retained-vs-iteration", std::to_string(s.get_num_retained()) + " vs " + std::to_string(e.size()) + ctxs);
    // I3 theta below start only while at least k retained
    if (theta < tstart) ctx.require(e.size() >= static_cast<size_t>(k), "C01|theta-lowered-with-fewer-than-k", "retained " + std::to_string(e.size()) + " k=" + std::to_string(k) + ctxs);
    // I4 exactness
    if (p == 1.0f && n.seen.size() <= static_cast<size_t>(k)) {
      ctx.require(theta == MAXT && !s.is_estimation_mode() && s.get_estimate() == static_cast<double>(n.seen.size()), "C01|not-exact-within-nominal-size",
        "distinct " + std::to_string(n.seen.size()) + " estimate " + hexd(s.get_estimate()) + " theta=" + hx(theta) + ctxs);
    }
    ctx.require(s.is_estimation_mode() == (theta < MAXT), "C01|estimation-mode-flag", ctxs);
    for (int sd = 1; sd <= 3; sd++) { double lb = s.get_lower_bound(sd), est = s.get_estimate(), ub = s.get_upper_bound(sd); ctx.require(lb <= est && est <= ub, "C01|bounds-order", hexd(lb) + " " + hexd(est) + " " + hexd(ub) + ctxs); }
    if (theta < tstart) ctx.probe("theta_rebuilt"); if (tstart < MAXT) ctx.probe("p_sampling");
  }

  void check_compact(Ctx& ctx, const U& s, const C& c, bool ordered, const char* what) {
    std::vector<u64> a = entries_of(s), b = entries_of(c);
    if (ordered) ctx.require(std::is_sorted(b.begin(), b.end()) && c.is_ordered(), "C01|compact-ordered-not-sorted", what);
    std::sort(a.begin(), a.end()); std::sort(b.begin(), b.end());
    ctx.require(a == b && c.get_theta64() == s.get_theta64() && c.is_empty() == s.is_empty() && c.get_num_retained() == s.get_num_retained() && c.get_seed_hash() == s.get_seed_hash(),
      "C01|compact-form-differs", std::string(what) + ": entries " + std::to_string(a.size()) + " vs " + std::to_string(b.size()) + " theta " + hx(s.get_theta64()) + " vs " + hx(c.get_theta64()));
    ctx.require(c.get_estimate() == s.get_estimate(), "C01|compact-estimate-differs", what);
  }

  void execute(const Plan& p, Ctx& ctx) override {
    alloc_state().reset_counters(); alloc_state().budget = static_cast<size_t>(1) << 31;
    const int lg_k = static_cast<int>(p.cfg[0]), rf = static_cast<int>(p.cfg[1]); const float pp = PS[p.cfg[2] & 3]; const u64 seed = SEEDS[p.cfg[3] % 3]; const int k = 1 << lg_k;
    const u64 tstart = start_theta(pp);
    std::vector<Node> nodes(1); nodes.reserve(8);   // references into the pool stay valid across COPY
    nodes[0].sk.reset(new U(build(lg_k, rf, pp, seed))); nodes[0].theta_prev = tstart;
    int idx = 0;
    auto offer = [&](Node& n, u64 h) { n.any = true; if (h != 0) n.seen.insert(h); };
    for (const Step& s : p.steps) {
      ctx.begin_step(idx++, s.kind);
      Node& n = nodes[static_cast<size_t>(s.a) % nodes.size()];
      switch (s.kind) {
        case O_UPD: { u64 h = typed_update(*n.sk, s.b, static_cast<int>(s.c) % N_TYPES, seed); if (static_cast<int>(s.c) % N_TYPES != T_EMPTYSTR) offer(n, h); else ctx.probe("empty_string_ignored"); break; }
        case O_BATCH: case O_PERMUTED: {
          n.batches.push_back(std::make_pair(s.b, s.c));
          for (i64 j = 0; j < s.c; j++) { i64 jj = s.kind == O_PERMUTED ? (j * 7919 + 13) % s.c : j; i64 v = s.b + jj; n.sk->update(static_cast<int64_t>(v)); offer(n, h_i64(v, seed)); }
          if (s.kind == O_PERMUTED) ctx.fault("reorder");
          break;
        }
        case O_REDELIVER: {
          if (n.batches.empty()) break;
          auto b = n.batches[static_cast<size_t>(s.b) % n.batches.size()];
          for (i64 j = 0; j < b.second; j++) { i64 v = b.first + j; n.sk->update(static_cast<int64_t>(v)); offer(n, h_i64(v, seed)); }
          ctx.fault("dup"); break;
        }
        case O_TRIM: { n.sk->trim(); ctx.require(n.sk->get_num_retained() <= static_cast<uint32_t>(k), "C01|trim-leaves-more-than-k", std::to_string(n.sk->get_num_retained())); ctx.probe("trim"); break; }
        case O_RESET: { n.sk->reset(); n.seen.clear(); n.any = false; n.theta_prev = tstart; n.batches.clear(); ctx.probe("reset"); break; }
        case O_COMPACT: { C c = n.sk->compact(s.b != 0); check_compact(ctx, *n.sk, c, s.b != 0, s.b ? "compact(true)" : "compact(false)"); C c2(c); C c3(std::move(c2)); check_compact(ctx, *n.sk, c3, s.b != 0, "moved copy of compact"); ctx.nontrivial = true; break; }
        case O_COPY: {
          if (nodes.size() >= 4) { Node& d = nodes[static_cast<size_t>(s.b) % nodes.size()]; if (&d != &n) { d.sk.reset(new U(*n.sk)); d.seen = n.seen; d.any = n.any; d.theta_prev = n.theta_prev; d.batches = n.batches; } }
          else { Node d; d.sk.reset(new U(*n.sk)); d.seen = n.seen; d.any = n.any; d.theta_prev = n.theta_prev; d.batches = n.batches; nodes.push_back(std::move(d)); }
          ctx.probe("copy"); ctx.nontrivial = true; break;
        }
        case O_ASSIGN: {
          Node& d = nodes[static_cast<size_t>(s.b) % nodes.size()];
          if (&d == &n) { *d.sk = *n.sk; ctx.probe("self_assign"); }
          else if (s.c) { *d.sk = *n.sk; d.seen = n.seen; d.any = n.any; d.theta_prev = n.theta_prev; d.batches = n.batches; }
          else { U tmp(*n.sk); *d.sk = std::move(tmp); d.seen = n.seen; d.any = n.any; d.theta_prev = n.theta_prev; d.batches = n.batches; }
          ctx.nontrivial = true; break;
        }
        case O_SERDE: {
          C c = n.sk->compact(s.b != 2);
          auto bytes = s.b == 1 ? c.serialize_compressed() : c.serialize();
          C back = C::deserialize(bytes.data(), bytes.size(), seed, A(1));
          check_compact(ctx, *n.sk, back, s.b != 2, "serialize->deserialize");
          ExactBuf eb(bytes.data(), bytes.size()); W w = W::wrap(eb.p, eb.n, seed);
          std::vector<u64> we; for (auto it = w.begin(); it != w.end(); ++it) we.push_back(*it);
          std::vector<u64> ce = entries_of(back); std::sort(we.begin(), we.end()); std::sort(ce.begin(), ce.end());
          ctx.require(we == ce && w.get_theta64() == back.get_theta64() && w.is_empty() == back.is_empty(), "C01|wrapped-form-differs", "");
          ctx.nontrivial = true; break;
        }
        default: break;
      }
      for (Node& x : nodes) check(ctx, x, k, pp, tstart, step_name(s.kind));
      ctx.t(static_cast<u64>(n.sk->get_theta64())); ctx.t(static_cast<u64>(n.sk->get_num_retained()));
    }
    if (!alloc_state().errors.empty()) ctx.fail("C01|allocator-misuse", alloc_state().errors[0]);
  }
};

// ================================================================== C02
enum { P_BUILD = 1, P_UNION = 2, P_INTER = 3, P_ANOTB = 4, P_GET_UNION = 5, P_GET_INTER = 6, P_RESET_UNION = 7, P_NEW_INTER = 8, P_JACCARD = 9, P_WRONG_SEED = 10, P_REDELIVER_UNION = 11 };
enum { FORM_UPDATE = 0, FORM_COMPACT_ORD, FORM_COMPACT_UNORD, FORM_DESER_V3, FORM_DESER_V4, FORM_WRAP_V3, FORM_WRAP_V4, N_FORMS };

struct MSk { u64 theta = MAXT; std::set<u64> s; bool empty = true; };   // model sketch

struct C02World: World {
  const char* name() const override { return "c02"; }
  const char* step_name(int k) const override { static const char* n[] = { "?", "build", "union_update", "intersection_update", "a_not_b", "union_get_result", "intersection_get_result", "union_reset", "new_intersection", "jaccard", "wrong_seed", "union_redeliver" }; return (k >= 1 && k <= 11) ? n[k] : "step"; }
  std::string family_of(const Plan&) const override { return "theta_setops"; }
  Plan generate(u64 run_seed, int tier) override {
    Plan p; p.run_seed = run_seed; Rng rc(run_seed, "cfg"), rp(run_seed, "plan"), rf(run_seed, "fault");
    static const int lgs[] = { 5, 5, 6, 7, 8 };
    p.cfg = { rc.pick(lgs), static_cast<i64>(rc.below(3)) };   // union nominal lg_k, seed
    const bool faults = !rc.chance(1, 10);
    int nslots = static_cast<int>(rc.range(2, 6));
    for (int i = 0; i < nslots; i++) { Step s; s.kind = P_BUILD; s.a = i; s.b = static_cast<i64>(rp.below(300)); static const i64 cnt[] = { 0, 0, 1, 10, 31, 32, 33, 64, 100, 250, 800 }; s.c = rp.pick(cnt) * 64 + static_cast<i64>(rp.below(64)); p.steps.push_back(s); }
    int n = static_cast<int>(rp.range(3, tier ? 50 : 22));
    for (int i = 0; i < n; i++) {
      Step s; unsigned roll = static_cast<unsigned>(rp.below(100));
      s.a = static_cast<i64>(rp.below(static_cast<u64>(nslots))); s.b = static_cast<i64>(rp.below(N_FORMS)); s.c = static_cast<i64>(rp.below(2));
      if (roll < 28) s.kind = P_UNION; else if (roll < 46) s.kind = P_INTER;
      else if (roll < 58) { s.kind = P_ANOTB; s.b = static_cast<i64>(rp.below(static_cast<u64>(nslots))); s.c = static_cast<i64>(rp.below(N_FORMS * N_FORMS * 2)); }
      else if (roll < 70) s.kind = P_GET_UNION; else if (roll < 80) s.kind = P_GET_INTER;
      else if (roll < 83) s.kind = P_RESET_UNION; else if (roll < 87) s.kind = P_NEW_INTER;
      else if (roll < 92) { s.kind = P_JACCARD; s.b = static_cast<i64>(rp.below(static_cast<u64>(nslots))); }
      else if (roll < 95) { s.kind = P_BUILD; s.b = static_cast<i64>(rp.below(300)); s.c = static_cast<i64>(rp.below(400)) * 64 + static_cast<i64>(rp.below(64)); }
      else if (faults && roll < 98) { s.kind = P_REDELIVER_UNION; s.fault = 1; s.fa = static_cast<i64>(rf.below(8)); }
      else s.kind = P_WRONG_SEED;
      p.steps.push_back(s);
    }
    return p;
  }

  struct Slot { std::unique_ptr<U> sk; MSk m; };

  static MSk observe(const U& s) { MSk m; m.theta = s.get_theta64(); m.empty = s.is_empty(); for (u64 h : entries_of(s)) m.s.insert(h); return m; }

  // deliver `sk` in physical form `form` to a callable taking (const sketch&) or (sketch&&)
  template<typename F> void deliver(const U& sk, int form, bool rvalue, u64 seed, F&& f, Ctx& ctx) {
    switch (form % N_FORMS) {
      case FORM_UPDATE: if (rvalue) { U tmp(sk); f(std::move(tmp)); } else f(sk); break;
      case FORM_COMPACT_ORD: { C c = sk.compact(true); if (rvalue) f(std::move(c)); else f(c); break; }
      case FORM_COMPACT_UNORD: { C c = sk.compact(false); if (rvalue) f(std::move(c)); else f(c); break; }
      case FORM_DESER_V3: { auto b = sk.compact(rvalue).serialize(); C c = C::deserialize(b.data(), b.size(), seed, A(1)); f(c); break; }
      case FORM_DESER_V4: { auto b = sk.compact(true).serialize_compressed(); C c = C::deserialize(b.data(), b.size(), seed, A(1)); if (rvalue) f(std::move(c)); else f(c); break; }
      case FORM_WRAP_V3: { auto b = sk.compact(!rvalue).serialize(); ExactBuf eb(b.data(), b.size()); W w = W::wrap(eb.p, eb.n, seed); f(w); break; }
      default: { auto b = sk.compact(true).serialize_compressed(); ExactBuf eb(b.data(), b.size()); W w = W::wrap(eb.p, eb.n, seed); f(w); break; }
    }
    ctx.probe((std::string("form_") + std::to_string(form % N_FORMS)).c_str());
  }

  void compare(Ctx& ctx, const C& r, const MSk& m, bool ordered, const char* op, bool compare_theta_when_empty) {
    std::vector<u64> e = entries_of(r);
    if (ordered) ctx.require(std::is_sorted(e.begin(), e.end()) && r.is_ordered(), (std::string("C02|") + op + "|ordered-result-not-sorted").c_str(), "");
    std::sort(e.begin(), e.end());
    std::vector<u64> want(m.s.begin(), m.s.end());
    ctx.require(r.is_empty() == m.empty, (std::string("C02|") + op + "|emptiness").c_str(), "result empty=" + std::to_string(r.is_empty()) + " model empty=" + std::to_string(m.empty));
    if (!m.empty || compare_theta_when_empty) ctx.require(r.get_theta64() == m.theta, (std::string("C02|") + op + "|theta").c_str(), "result theta=" + hx(r.get_theta64()) + " model theta=" + hx(m.theta));
    if (e != want) {
      std::vector<u64> miss, extra; std::set_difference(want.begin(), want.end(), e.begin(), e.end(), std::back_inserter(miss)); std::set_difference(e.begin(), e.end(), want.begin(), want.end(), std::back_inserter(extra));
      ctx.fail(std::string("C02|") + op + (miss.empty() ? "|extra-entry" : "|missing-entry"), "result " + std::to_string(e.size()) + " entries, model " + std::to_string(want.size()) + (miss.empty() ? "" : " missing " + hx(miss[0])) + (extra.empty() ? "" : " extra " + hx(extra[0])));
    }
    ctx.require(r.get_num_retained() == e.size(), (std::string("C02|") + op + "|num-retained").c_str(), "");
    for (int sd = 1; sd <= 3; sd++) ctx.require(r.get_lower_bound(sd) <= r.get_estimate() && r.get_estimate() <= r.get_upper_bound(sd), (std::string("C02|") + op + "|bounds-order").c_str(), "");
  }

  void execute(const Plan& p, Ctx& ctx) override {
    alloc_state().reset_counters(); alloc_state().budget = static_cast<size_t>(1) << 31;
    const int lg_u = static_cast<int>(p.cfg[0]); const u64 seed = SEEDS[p.cfg[1] % 3]; const size_t ku = static_cast<size_t>(1) << lg_u;
    std::vector<Slot> slots(6);
    auto un = ds::theta_union_alloc<A>::builder(A(1)).set_lg_k(static_cast<uint8_t>(lg_u)).set_seed(seed).build();
    std::unique_ptr<ds::theta_intersection_alloc<A>> in(new ds::theta_intersection_alloc<A>(seed, A(1)));
    ds::theta_a_not_b_alloc<A> anb(seed, A(1));
    // models
    u64 u_theta = MAXT; std::set<u64> u_set; bool u_empty = true;          // union
    bool i_valid = false, i_empty = false; u64 i_theta = MAXT; std::set<u64> i_set;   // intersection
    std::vector<int> delivered;   // slots delivered to the union (for redelivery)
    auto model_union_update = [&](const MSk& x) {
      if (x.empty) return;
      u_empty = false; u_theta = std::min(u_theta, x.theta);
      for (u64 h : x.s) if (h < u_theta) u_set.insert(h);
      while (!u_set.empty() && *u_set.rbegin() >= u_theta) u_set.erase(std::prev(u_set.end()));
    };
    auto model_union_result = [&]() { MSk m; m.empty = u_empty; m.theta = u_theta; m.s = u_set;
      if (m.s.size() > ku) { auto it = m.s.begin(); std::advance(it, static_cast<std::ptrdiff_t>(ku)); m.theta = *it; m.s.erase(it, m.s.end()); }
      return m; };
    auto model_inter_update = [&](const MSk& x) {
      if (i_empty) return;
      i_empty = i_empty || x.empty; i_theta = i_empty ? MAXT : std::min(i_theta, x.theta);
      if (!i_valid) { i_valid = true; if (!x.empty) for (u64 h : x.s) if (h < i_theta) i_set.insert(h); }
      else { std::set<u64> keep; for (u64 h : i_set) if (h < i_theta && x.s.count(h)) keep.insert(h); i_set.swap(keep); }
      if (i_empty) i_set.clear();
      if (i_set.empty() && i_theta == MAXT) i_empty = true;
    };
    int idx = 0;
    for (const Step& s : p.steps) {
      ctx.begin_step(idx++, s.kind);
      Slot& sl = slots[static_cast<size_t>(s.a) % slots.size()];
      if (s.kind != P_BUILD && !sl.sk) { ctx.t(static_cast<u64>(0)); continue; }
      switch (s.kind) {
        case P_BUILD: {
          static const int lgs[] = { 5, 6, 7, 9 }; const int bits = static_cast<int>(s.c % 64); const i64 count = s.c / 64;
          sl.sk.reset(new U(build(lgs[bits & 3], (bits >> 2) & 3, PS[(bits >> 4) & 3], seed)));
          for (i64 j = 0; j < count; j++) sl.sk->update(static_cast<int64_t>(s.b + j));
          sl.m = observe(*sl.sk);
          if (!sl.m.empty && sl.m.s.empty()) ctx.probe("input_nonempty_zero_retained");
          if (sl.m.theta < MAXT) ctx.probe("input_estimating"); if (sl.m.empty) ctx.probe("input_empty");
          break;
        }
        case P_UNION: case P_REDELIVER_UNION: {
          const Slot* src = &sl;
          if (s.kind == P_REDELIVER_UNION) { if (delivered.empty()) break; src = &slots[static_cast<size_t>(delivered[static_cast<size_t>(s.fa) % delivered.size()])]; if (!src->sk) break; ctx.fault("dup"); }
          deliver(*src->sk, static_cast<int>(s.b), s.c != 0, seed, [&](auto&& x) { un.update(std::forward<decltype(x)>(x)); }, ctx);
          model_union_update(src->m); delivered.push_back(static_cast<int>(src - &slots[0]));
          // the result must equal the model after every delivery
          MSk m = model_union_result(); C r = un.get_result(true); compare(ctx, r, m, true, "union", false);
          if (u_set.size() > ku) ctx.probe("union_trimmed_to_k");
          ctx.nontrivial = true; break;
        }
        case P_GET_UNION: { MSk m = model_union_result(); C r = un.get_result(s.c != 0); compare(ctx, r, m, s.c != 0, "union", false); ctx.fault("interleaved_read"); break; }
        case P_RESET_UNION: { un.reset(); u_theta = MAXT; u_set.clear(); u_empty = true; delivered.clear(); C r = un.get_result(); compare(ctx, r, model_union_result(), true, "union-after-reset", false); break; }
        case P_INTER: {
          deliver(*sl.sk, static_cast<int>(s.b), s.c != 0, seed, [&](auto&& x) { in->update(std::forward<decltype(x)>(x)); }, ctx);
          model_inter_update(sl.m);
          MSk m; m.empty = i_empty; m.theta = i_theta; m.s = i_set;
          ctx.require(in->has_result(), "C02|intersection|has_result-false-after-update", "");
          C r = in->get_result(s.c != 0); compare(ctx, r, m, s.c != 0, "intersection", true);
          if (i_empty) ctx.probe("intersection_empty_absorbing");
          ctx.nontrivial = true; break;
        }
        case P_GET_INTER: {
          if (!i_valid) { bool threw = false; try { in->get_result(); } catch (const std::invalid_argument&) { threw = true; } ctx.require(threw && !in->has_result(), "C02|intersection|get_result-before-update-not-refused", ""); ctx.fault("refused_op"); }
          else { MSk m; m.empty = i_empty; m.theta = i_theta; m.s = i_set; C r = in->get_result(s.c != 0); compare(ctx, r, m, s.c != 0, "intersection", true); ctx.fault("interleaved_read"); }
          break;
        }
        case P_NEW_INTER: { in.reset(new ds::theta_intersection_alloc<A>(seed, A(1))); i_valid = false; i_empty = false; i_theta = MAXT; i_set.clear(); break; }
        case P_ANOTB: {
          Slot& sb = slots[static_cast<size_t>(s.b) % slots.size()]; if (!sb.sk) break;
          const int fa = static_cast<int>(s.c % N_FORMS), fb = static_cast<int>((s.c / N_FORMS) % N_FORMS); const bool ordered = ((s.c / (N_FORMS * N_FORMS)) & 1) != 0;
          // model
          MSk m; const MSk& a = sl.m; const MSk& b = sb.m;
          if (a.empty || (!a.s.empty() && b.empty)) m = a;
          else { m.theta = std::min(a.theta, b.theta); m.empty = false; for (u64 h : a.s) if (h < m.theta && !b.s.count(h)) m.s.insert(h); if (m.s.empty() && m.theta == MAXT) m.empty = true; }
          std::unique_ptr<C> res;
          deliver(*sl.sk, fa, false, seed, [&](auto&& xa) {
            deliver(*sb.sk, fb, false, seed, [&](auto&& xb) { res.reset(new C(anb.compute(xa, xb, ordered))); }, ctx);
          }, ctx);
          compare(ctx, *res, m, false, "a_not_b", true);
          if (ordered) { std::vector<u64> e = entries_of(*res); ctx.require(std::is_sorted(e.begin(), e.end()), "C02|a_not_b|ordered-result-not-sorted", ""); }
          ctx.nontrivial = true; break;
        }
        case P_JACCARD: {
          Slot& sb = slots[static_cast<size_t>(s.b) % slots.size()]; if (!sb.sk) break;
          auto jc = ds::theta_jaccard_similarity_alloc<A>::jaccard(*sl.sk, *sb.sk, seed);
          ctx.require(jc[0] <= jc[1] && jc[1] <= jc[2], "C02|jaccard|bounds-order", "");
          const MSk& a = sl.m; const MSk& b = sb.m;
          if (a.theta == MAXT && b.theta == MAXT) {
            size_t inter = 0; for (u64 h : a.s) if (b.s.count(h)) inter++; size_t uni = a.s.size() + b.s.size() - inter;
            double want = (a.empty && b.empty) ? 1.0 : (uni == 0 ? 0.0 : static_cast<double>(inter) / static_cast<double>(uni));
            if (a.empty != b.empty) want = 0.0;
            for (int i = 0; i < 3; i++) ctx.require(std::fabs(jc[static_cast<size_t>(i)] - want) <= 1e-12, "C02|jaccard|exact-mode-ratio", "got " + hexd(jc[static_cast<size_t>(i)]) + " want " + hexd(want));
            bool eq = ds::theta_jaccard_similarity_alloc<A>::exactly_equal(*sl.sk, *sb.sk, seed);
            ctx.require(eq == (a.s == b.s && a.empty == b.empty), "C02|jaccard|exactly_equal", "");
            // similarity_test / dissimilarity_test against the exact ratio: "similar" means lower bound >= threshold, "dissimilar" upper bound <= threshold;
            // in exact mode both bounds are the ratio, so at threshold == ratio both are true, just above it only dissimilar, just below only similar
            { typedef ds::theta_jaccard_similarity_alloc<A> J; const double up = std::min(1.0, want + 1e-6), dn = std::max(0.0, want - 1e-6);
              ctx.require(J::similarity_test(*sl.sk, *sb.sk, want, seed), "C02|jaccard|similarity_test-at-the-exact-ratio", hexd(want));
              ctx.require(J::dissimilarity_test(*sl.sk, *sb.sk, want, seed), "C02|jaccard|dissimilarity_test-at-the-exact-ratio", hexd(want));
              if (up > want) ctx.require(!J::similarity_test(*sl.sk, *sb.sk, up, seed), "C02|jaccard|similarity_test-above-the-ratio", hexd(want));
              if (dn < want) ctx.require(!J::dissimilarity_test(*sl.sk, *sb.sk, dn, seed), "C02|jaccard|dissimilarity_test-below-the-ratio", hexd(want)); }
            ctx.probe("jaccard_exact");
          }
          break;
        }
        case P_WRONG_SEED: {
          U other = build(6, 0, 1.0f, seed + 1); other.update(static_cast<int64_t>(1));
          bool t1 = false, t2 = false, t3 = false;
          try { un.update(other); } catch (const std::invalid_argument&) { t1 = true; }
          try { anb.compute(*sl.sk, other); } catch (const std::invalid_argument&) { t3 = true; }
          if (!i_empty) { try { in->update(other); } catch (const std::invalid_argument&) { t2 = true; } } else t2 = true;
          const bool t3_needed = !(sl.m.empty);   // a-not-b returns A unchanged for an empty A without looking at B
          ctx.require(t1 && t2 && (t3 || !t3_needed), "C02|seed-mismatch-not-refused", std::to_string(t1) + std::to_string(t2) + std::to_string(t3));
          // and nothing changed
          C r = un.get_result(true); compare(ctx, r, model_union_result(), true, "union-after-refused", false);
          ctx.fault("refused_op"); break;
        }
        default: break;
      }
      ctx.t(static_cast<u64>(u_set.size())); ctx.t(u_theta); ctx.t(static_cast<u64>(i_set.size()));
    }
    if (!alloc_state().errors.empty()) ctx.fail("C02|allocator-misuse", alloc_state().errors[0]);
  }
};

struct Init { Init() { static C01World a; static C02World b; registry().push_back(&a); registry().push_back(&b); } } init_;
} // namespace

int main(int argc, char** argv) { sim::selftest_hashes(); return sim::sim_main(argc, argv); }
