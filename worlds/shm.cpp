// world `shm` (C15): several views of one Bloom-filter memory block, created and destroyed by the scheduler.
#include "../sim/driver.hpp"
#include "../sim/canon.hpp"
#include <bloom_filter.hpp>

using namespace sim;
namespace ds = datasketches;

namespace {
typedef talloc<uint8_t> A;
typedef ds::bloom_filter_alloc<A> S;
static const u64 SEEDS[3] = { ds::DEFAULT_SEED, 12345, 0x9e3779b97f4a7c15ULL };

enum { V_INIT = 1, V_WWRAP, V_RWRAP, V_DESER, V_COPY, V_DESTROY, V_UPDATE, V_QAU, V_QUERY, V_UNION, V_INTERSECT, V_INVERT, V_RESET, V_BITS, V_SERIALIZE, V_BATCH, V_WRITE_RO, V_ASSIGN, V_FPP, V_N };
const char* names[] = { "?", "initialize", "writable_wrap", "wrap", "deserialize", "copy", "view_death", "update", "query_and_update", "query", "union_with", "intersect", "invert", "reset", "get_bits_used", "serialize", "batch_update", "write_through_read_only", "copy_assign", "false_positive_rate" };

// Bloom's own canonicalisation (bloom_filter.hpp): unsigned integers are zero-extended, signed ones sign-extended, float -> canonical double
enum BType { B_I64, B_U64, B_I32, B_U32, B_I16, B_U16, B_I8, B_U8, B_DOUBLE, B_FLOAT, B_STRING, B_BYTES, B_NEGZERO, B_NAN, B_EMPTYSTR, B_NTYPES };
template<typename F> Canon bloom_typed(i64 v, int type, F&& f) {   // f(value) performs the library call
  switch (type) {
    case B_I64: f(static_cast<int64_t>(v - 50)); return canon_i64(v - 50);
    case B_U64: f(static_cast<uint64_t>(v)); return canon_i64(v);
    case B_I32: f(static_cast<int32_t>(v - 50)); return canon_i64(v - 50);
    case B_U32: { uint32_t x = 0xfffffff0u + static_cast<uint32_t>(v); f(x); return canon_i64(static_cast<i64>(static_cast<u64>(x))); }
    case B_I16: f(static_cast<int16_t>(v - 50)); return canon_i64(static_cast<int16_t>(v - 50));
    case B_U16: { uint16_t x = static_cast<uint16_t>(0xfff0u + static_cast<unsigned>(v)); f(x); return canon_i64(static_cast<i64>(static_cast<u64>(x))); }
    case B_I8: f(static_cast<int8_t>(v - 50)); return canon_i64(static_cast<int8_t>(v - 50));
    case B_U8: { uint8_t x = static_cast<uint8_t>(0xf0u + static_cast<unsigned>(v)); f(x); return canon_i64(static_cast<i64>(static_cast<u64>(x))); }
    case B_DOUBLE: { double d = static_cast<double>(v) / 4.0; f(d); return canon_double(d); }
    case B_FLOAT: { float x = static_cast<float>(v) / 3.0f; f(x); return canon_double(static_cast<double>(x)); }
    case B_STRING: { std::string str = "k" + std::to_string(v); f(str); return canon_bytes(str.data(), str.size()); }
    case B_NEGZERO: f(-0.0); return canon_double(0.0);
    case B_NAN: f(std::numeric_limits<double>::quiet_NaN()); return canon_double(std::numeric_limits<double>::quiet_NaN());
    case B_EMPTYSTR: { f(std::string()); Canon c; c.ignored = true; return c; }
    default: { std::string str = "b" + std::to_string(v * 3); f(str); return canon_bytes(str.data(), str.size()); }
  }
}

struct BitModel {
  u64 cap = 0; int nh = 0; u64 seed = 0; std::vector<uint8_t> bits; std::set<std::string> inserted;
  void init(u64 num_bits, int nh_, u64 seed_) { cap = (num_bits + 63) & ~63ULL; nh = nh_; seed = seed_; bits.assign(cap >> 3, 0); inserted.clear(); }
  std::vector<u64> idx(const Canon& c) const { u64 h0 = xxh64(c.data, c.len, seed), h1 = xxh64(c.data, c.len, h0); std::vector<u64> r; for (int i = 1; i <= nh; i++) r.push_back(((h0 + static_cast<u64>(i) * h1) >> 1) % cap); return r; }
  bool query(const Canon& c) const { for (u64 i : idx(c)) if (!(bits[i >> 3] & (1u << (i & 7)))) return false; return true; }
  void insert(const Canon& c) { for (u64 i : idx(c)) bits[i >> 3] |= static_cast<uint8_t>(1u << (i & 7)); inserted.insert(std::string(reinterpret_cast<const char*>(c.data), c.len)); }
  u64 popcount() const { u64 n = 0; for (uint8_t b : bits) n += static_cast<u64>(__builtin_popcount(b)); return n; }
};

struct View { std::unique_ptr<S> f; bool on_mem = false; bool read_only = false; bool stale = false; BitModel own; };   // own: model of a snapshot (deserialized / copied) filter

struct C15World: World {
  const char* name() const override { return "c15"; }
  const char* step_name(int k) const override { return (k >= 1 && k < V_N) ? names[k] : "step"; }
  std::string family_of(const Plan&) const override { return "bloom"; }
  Plan generate(u64 run_seed, int tier) override {
    Plan p; p.run_seed = run_seed; Rng rc(run_seed, "cfg"), rp(run_seed, "plan"), rf(run_seed, "fault");
    static const i64 bits[] = { 1, 63, 64, 65, 100, 1000, 8192 };
    p.cfg = { rc.pick(bits), rc.range(1, 7), static_cast<i64>(rc.below(3)) };
    const bool faults = !rc.chance(1, 10);
    { Step s; s.kind = V_INIT; p.steps.push_back(s); }
    int n = static_cast<int>(rp.range(4, tier ? 60 : 26));
    for (int i = 0; i < n; i++) {
      Step s; unsigned roll = static_cast<unsigned>(rp.below(100)); s.a = static_cast<i64>(rp.below(5)); s.b = static_cast<i64>(rp.below(60)); s.c = static_cast<i64>(rp.below(B_NTYPES));
      if (roll < 18) s.kind = V_UPDATE; else if (roll < 26) s.kind = V_QAU; else if (roll < 34) s.kind = V_QUERY; else if (roll < 40) { s.kind = V_BATCH; s.b = static_cast<i64>(rp.below(5000)); s.c = rp.range(1, 200); }
      else if (roll < 50) s.kind = V_WWRAP; else if (roll < 57) s.kind = V_RWRAP; else if (roll < 63) { s.kind = V_DESER; s.b = static_cast<i64>(rp.below(2)); }
      else if (roll < 67) { s.kind = rp.chance(1, 2) ? V_COPY : V_ASSIGN; s.b = static_cast<i64>(rp.below(5)); }
      else if (roll < 76) { s.kind = faults ? V_DESTROY : V_QUERY; if (faults) s.fault = 1; }
      else if (roll < 81) { s.kind = V_UNION; s.b = static_cast<i64>(rp.below(400)); s.c = static_cast<i64>(rp.below(4)); }
      else if (roll < 85) { s.kind = V_INTERSECT; s.b = static_cast<i64>(rp.below(400)); s.c = static_cast<i64>(rp.below(4)); }
      else if (roll < 88) s.kind = V_INVERT; else if (roll < 91) s.kind = V_RESET; else if (roll < 95) s.kind = V_BITS; else if (roll < 97) s.kind = V_SERIALIZE;
      else if (roll < 99) s.kind = V_WRITE_RO; else if (rp.chance(1, 2)) { s.kind = V_FPP; s.b = static_cast<i64>(rp.below(1000)); s.c = static_cast<i64>(rp.below(16)); } else s.kind = V_INIT;
      p.steps.push_back(s);
    }
    return p;
  }

  void execute(const Plan& p, Ctx& ctx) override {
    alloc_state().reset_counters(); alloc_state().budget = static_cast<size_t>(1) << 30;
    const u64 num_bits = static_cast<u64>(p.cfg[0]); const uint16_t nh = static_cast<uint16_t>(p.cfg[1]); const u64 seed = SEEDS[p.cfg[2] % 3];
    const size_t mem_size = S::get_serialized_size_bytes(num_bits);
    uint8_t* mem = static_cast<uint8_t*>(std::malloc(mem_size));   // exact size: ASan poisons the byte after it
    struct Free { uint8_t* p; ~Free() { std::free(p); } } free_mem{mem};
    BitModel mm; bool mem_ready = false;
    std::vector<View> views(5);
    auto model_of = [&](View& v) -> BitModel& { return v.on_mem ? mm : v.own; };
    auto mark_others_stale = [&](View& writer) { if (!writer.on_mem) return; for (View& o : views) if (o.f && o.on_mem && &o != &writer) o.stale = true; writer.stale = false; };
    auto check_filter = [&](S& f, const BitModel& m, const std::string& who, bool verdict) {
      // bit array through the serialized image (layout comment: bits start at byte 32 of a non-empty image)
      const u64 pop = m.popcount();
      bool ok = true; std::string why;
      if (f.is_empty() != (pop == 0)) { ok = false; why = "is_empty=" + std::to_string(f.is_empty()) + " but model popcount=" + std::to_string(pop); }
      if (ok) { S c(f); if (c.get_bits_used() != pop) { ok = false; why = "bits used " + std::to_string(c.get_bits_used()) + " model " + std::to_string(pop); } }
      if (ok) for (const std::string& it : m.inserted) { if (!f.query(static_cast<const void*>(it.data()), it.size())) { ok = false; why = "false negative for an inserted item (" + std::to_string(it.size()) + " bytes)"; break; } }
      if (ok && pop > 0) { auto img = f.serialize(); if (img.size() != 32 + m.bits.size() || std::memcmp(img.data() + 32, m.bits.data(), m.bits.size()) != 0) { ok = false; why = "bit array differs from model"; } }
      if (!ok) { if (verdict) ctx.fail("C15|" + who, why); else ctx.probe("stale_live_view_disagrees"); }
      ctx.check();
    };
    int idx = 0;
    for (const Step& s : p.steps) {
      ctx.begin_step(idx++, s.kind);
      View& v = views[static_cast<size_t>(s.a) % views.size()];
      const int type = static_cast<int>(s.c) % B_NTYPES;
      switch (s.kind) {
        case V_FPP: {   // a filter built for a target accuracy, filled with exactly the number of items it was built for: the rate of false positives on
          // 20000 other items stays near the target (pinned tree: at most 1.7 x target over 640 filters; 2.5 x target plus five standard deviations is demanded)
          static const u64 ns[] = { 50, 200, 1000, 5000 }; static const double fpps[] = { 0.2, 0.05, 0.01, 0.001 };
          const u64 n_items = ns[static_cast<size_t>(s.c) % 4]; const double target = fpps[static_cast<size_t>(s.c >> 2) % 4]; const int Q = 20000;
          S f2 = S::builder::create_by_accuracy(n_items, target, seed + static_cast<u64>(s.b), A(1));
          for (u64 i2 = 0; i2 < n_items; i2++) f2.update(static_cast<int64_t>(i2 * 3 + static_cast<u64>(s.b)));
          int fpc = 0; for (int q = 0; q < Q; q++) if (f2.query(static_cast<int64_t>(1000000007LL + q * 13 + s.b))) fpc++;
          for (u64 i2 = 0; i2 < n_items; i2 += 1 + n_items / 50) if (!f2.query(static_cast<int64_t>(i2 * 3 + static_cast<u64>(s.b)))) ctx.fail("C15|false-negative", "filter built by accuracy");
          const double rate = static_cast<double>(fpc) / Q, allowed = 2.5 * target + 5 * std::sqrt(target / Q);
          if (rate > allowed) ctx.fail("C15|false-positive-rate-far-above-target", "filter for " + std::to_string(n_items) + " items at target " + std::to_string(target) + " (" + std::to_string(f2.get_capacity()) + " bits, " + std::to_string(f2.get_num_hashes()) + " hashes): " + std::to_string(rate) + " of " + std::to_string(Q) + " absent items reported present, allowed " + std::to_string(allowed));
          ctx.check(); ctx.probe("false_positive_rate_checked"); break; }
        case V_INIT: {
          for (View& o : views) if (o.on_mem) { o.f.reset(); o.on_mem = false; }
          views[0].f.reset(new S(S::builder::initialize_by_size(mem, mem_size, num_bits, nh, seed, A(1)))); views[0].on_mem = true; views[0].read_only = false; views[0].stale = false;
          mm.init(num_bits, nh, seed); mem_ready = true; break;
        }
        case V_WWRAP: case V_RWRAP: {
          if (!mem_ready) break;
          v.f.reset(); v.on_mem = false;
          if (s.kind == V_WWRAP) v.f.reset(new S(S::writable_wrap(mem, mem_size, A(1)))); else v.f.reset(new S(S::wrap(mem, mem_size, A(1))));
          v.on_mem = true; v.read_only = s.kind == V_RWRAP; v.stale = false;
          ctx.require(v.f->is_read_only() == v.read_only && v.f->is_wrapped(), "C15|view-flags", "");
          // the durability clause: a view created now sees every earlier write made through any writable view
          check_filter(*v.f, mm, std::string("new-") + names[s.kind] + "-misses-earlier-writes", true);
          ctx.probe(mm.popcount() ? "rewrap_after_writes" : "rewrap_of_clean_memory"); ctx.nontrivial = true; break;
        }
        case V_DESER: {
          if (!mem_ready) break;
          v.f.reset(); v.on_mem = false;
          if (s.b) { SimFileBuf fb(mem, mem_size, 0, 64, static_cast<size_t>(-1), static_cast<size_t>(-1)); std::istream is(&fb); v.f.reset(new S(S::deserialize(is, A(1)))); }
          else v.f.reset(new S(S::deserialize(mem, mem_size, A(1))));
          v.own = mm; v.read_only = false; v.stale = false;
          check_filter(*v.f, v.own, "deserialized-memory-misses-earlier-writes", true); ctx.nontrivial = true; break;
        }
        case V_COPY: { View& src = views[static_cast<size_t>(s.b) % views.size()]; if (!src.f || &src == &v || (src.on_mem && src.stale)) break;
          // by design a copy of a filter that wraps caller memory is another view of that memory; a copy of an owning filter owns a snapshot
          std::unique_ptr<S> c(new S(*src.f)); BitModel m = model_of(src); const bool shares = src.on_mem; const bool ro = src.read_only;
          v.f = std::move(c); v.on_mem = shares; v.own = m; v.read_only = shares && ro; v.stale = false;
          ctx.require(v.f->is_wrapped() == shares, "C15|copy-wrapped-flag", ""); check_filter(*v.f, model_of(v), "copy-differs-from-source", true); ctx.probe(shares ? "copy_of_memory_view" : "copy_of_owning_filter"); break; }
        case V_ASSIGN: { View& src = views[static_cast<size_t>(s.b) % views.size()]; if (!src.f || !v.f || &src == &v || (src.on_mem && src.stale)) break;
          // copy assignment: the target becomes what a copy of the source is (a view of the memory if the source is one, a snapshot otherwise)
          BitModel m = model_of(src); const bool shares = src.on_mem; const bool ro = src.read_only;
          *v.f = *src.f; v.on_mem = shares; v.own = m; v.read_only = shares && ro; v.stale = false;
          check_filter(*v.f, model_of(v), "copy-assigned-filter-differs-from-source", true); ctx.probe("copy_assign"); ctx.nontrivial = true; break; }
        case V_DESTROY: { if (v.f) { v.f.reset(); v.on_mem = false; ctx.fault("view_death"); } break; }
        default: break;
      }
      if (v.f && (s.kind == V_UPDATE || s.kind == V_QAU || s.kind == V_QUERY || s.kind == V_BATCH || s.kind == V_UNION || s.kind == V_INTERSECT || s.kind == V_INVERT || s.kind == V_RESET || s.kind == V_BITS || s.kind == V_SERIALIZE || s.kind == V_WRITE_RO)) {
        BitModel& m = model_of(v); S& f = *v.f;
        const bool writes = s.kind == V_UPDATE || s.kind == V_QAU || s.kind == V_BATCH || s.kind == V_UNION || s.kind == V_INTERSECT || s.kind == V_INVERT || s.kind == V_RESET;
        if (writes && v.on_mem && v.stale && !v.read_only) {
          // every view caches its own bit count: writing through a view that another writer has overtaken is outside what the statement promises
          // ("a wrap of the same memory at any later time"); the scheduler does not do it, and says how often it wanted to
          ctx.probe("write_through_overtaken_view_skipped");
        } else if (v.read_only && (writes || s.kind == V_WRITE_RO)) {
          // refused: must throw and change nothing
          bool threw = false; const std::vector<uint8_t> before(mem, mem + mem_size);
          try { if (s.kind == V_RESET) f.reset(); else if (s.kind == V_INVERT) f.invert(); else if (s.kind == V_QAU) f.query_and_update(static_cast<int64_t>(s.b));
            else if (s.kind == V_UNION || s.kind == V_INTERSECT) { S other = S::builder::create_by_size(num_bits, nh, seed, A(1)); other.update(static_cast<int64_t>(s.b)); if (s.kind == V_UNION) f.union_with(other); else f.intersect(other); }
            else f.update(static_cast<int64_t>(s.b)); } catch (const std::logic_error&) { threw = true; }
          ctx.require(threw, "C15|write-through-read-only-view-not-refused", names[s.kind]);
          ctx.require(std::memcmp(before.data(), mem, mem_size) == 0, "C15|refused-write-changed-memory", names[s.kind]);
          ctx.fault("refused_op");
        } else if (s.kind == V_WRITE_RO) { /* not a read-only view */ }
        else switch (s.kind) {
          case V_UPDATE: { Canon c = bloom_typed(s.b, type, [&](auto x) { f.update(x); }); if (!c.ignored) m.insert(c); mark_others_stale(v); break; }
          case V_BATCH: { for (i64 j = 0; j < s.c; j++) { f.update(static_cast<int64_t>(s.b + j)); m.insert(canon_i64(s.b + j)); } mark_others_stale(v); break; }
          case V_QAU: { bool got = false; Canon c = bloom_typed(s.b, type, [&](auto x) { got = f.query_and_update(x); });
            if (!c.ignored) { const bool want = (v.on_mem && v.stale) ? got : m.query(c); ctx.require(got == want, "C15|query_and_update-return-value", std::string("returned ") + (got ? "present" : "absent") + " model says " + (want ? "present" : "absent")); m.insert(c); }
            else ctx.require(!got, "C15|query_and_update-of-ignored-item", "");
            mark_others_stale(v); break; }
          case V_QUERY: { bool got = false; Canon c = bloom_typed(s.b, type, [&](auto x) { got = f.query(x); });
            if (!c.ignored && !(v.on_mem && v.stale)) { const bool want = m.query(c); if (want && !got) ctx.fail("C15|false-negative", "query of an item whose bits are all set returned absent"); ctx.require(got == want, "C15|query-disagrees-with-bit-model", ""); }
            break; }
          case V_UNION: case V_INTERSECT: {
            const bool compatible = (s.c & 3) != 3;
            // incompatible in one of three ways: another capacity, another number of hashes (same seed and capacity), another seed
            const int how = static_cast<int>(s.b % 3);
            S other = compatible ? S::builder::create_by_size(num_bits, nh, seed, A(1)) : how == 0 ? S::builder::create_by_size(num_bits + 64, nh, seed, A(1)) : how == 1 ? S::builder::create_by_size(num_bits, static_cast<uint16_t>(nh + 1), seed, A(1)) : S::builder::create_by_size(num_bits, nh, seed + 1, A(1));
            BitModel om; om.init(compatible || how != 0 ? num_bits : num_bits + 64, compatible || how != 1 ? nh : nh + 1, compatible || how != 2 ? seed : seed + 1);
            for (i64 j = 0; j < 20; j++) { other.update(static_cast<int64_t>(s.b + j)); om.insert(canon_i64(s.b + j)); }
            if (!compatible) { bool threw = false; const std::vector<uint8_t> before = m.bits; try { if (s.kind == V_UNION) f.union_with(other); else f.intersect(other); } catch (const std::invalid_argument&) { threw = true; }
              ctx.require(threw && !f.is_compatible(other), "C15|incompatible-set-operation-not-refused", names[s.kind]); ctx.fault("refused_op"); break; }
            // a read-only view is a legal SOURCE operand: half of the compatible operands are delivered as a read-only wrap of their own image
            std::vector<uint8_t, A> oimg(A(1)); std::unique_ptr<S> ro; if ((s.c & 3) == 2) { oimg = other.serialize(); ro.reset(new S(S::wrap(oimg.data(), oimg.size(), A(1)))); ctx.probe("read_only_source_operand"); }
            const S& operand = ro ? *ro : other;
            if (s.kind == V_UNION) { f.union_with(operand); for (size_t i = 0; i < m.bits.size(); i++) m.bits[i] |= om.bits[i]; for (auto& it : om.inserted) m.inserted.insert(it); }
            else { f.intersect(operand); for (size_t i = 0; i < m.bits.size(); i++) m.bits[i] &= om.bits[i]; m.inserted.clear(); }
            mark_others_stale(v); break; }
          case V_INVERT: { f.invert(); for (uint8_t& b : m.bits) b = static_cast<uint8_t>(~b); m.inserted.clear(); mark_others_stale(v); break; }
          case V_RESET: { f.reset(); std::fill(m.bits.begin(), m.bits.end(), 0); m.inserted.clear(); mark_others_stale(v); break; }
          case V_BITS: { if (!(v.on_mem && v.stale)) ctx.require(f.get_bits_used() == m.popcount(), "C15|bits-used", std::to_string(f.get_bits_used()) + " vs " + std::to_string(m.popcount())); else f.get_bits_used(); break; }
          case V_SERIALIZE: { if (v.on_mem && v.stale) break; auto img = f.serialize(); S back = S::deserialize(img.data(), img.size(), A(1)); check_filter(back, m, "serialized-and-restored-differs", true); break; }
          default: break;
        }
      }
      // after every step: every live view that was not overtaken by another writer, plus a fresh wrap and a fresh deserialize of the memory
      for (size_t i = 0; i < views.size(); i++) { View& o = views[i]; if (!o.f) continue; check_filter(*o.f, model_of(o), "live-view-disagrees-with-model", !(o.on_mem && o.stale)); }
      if (mem_ready) {
        S fresh = S::wrap(mem, mem_size, A(1)); check_filter(fresh, mm, "fresh-wrap-of-memory-misses-writes", true);
        S des = S::deserialize(mem, mem_size, A(1)); check_filter(des, mm, "fresh-deserialize-of-memory-misses-writes", true);
        if (mm.popcount() > 0) { S w2 = S::writable_wrap(mem, mem_size, A(1)); check_filter(w2, mm, "fresh-writable-wrap-of-memory-misses-writes", true); }
      }
      ctx.t(mm.popcount()); ctx.t(fnv1a(mem, mem_size));
    }
    for (View& o : views) o.f.reset();
    if (!alloc_state().errors.empty()) ctx.fail("C15|allocator-misuse", alloc_state().errors[0]);
  }
};

struct Init { Init() { static C15World a; registry().push_back(&a); } } init_;
} // namespace

int main(int argc, char** argv) { sim::selftest_hashes(); return sim::sim_main(argc, argv); }
